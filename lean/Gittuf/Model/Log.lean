import Gittuf.Basic
/-
Model of the Reference State Log (pkg/rsl/rsl.go): the object store as far as the
RSL sees it, the entry readers (C04) and the recording operations (C03).

Ids are symbolic (`Nat`): a commit id is whatever key the store files the commit
under; recording allocates an id that is not yet in the store (git: hash of new
content).  A commit is its parent list plus the parse of its message
(`none` = `parseRSLEntryText` fails, rsl.go:1079-1105).
Core Lean only (this file is linked into the driver executable).
-/
namespace Gittuf.RSL

abbrev Id := Nat

/-- The three entry kinds with the fields of the Go structs (rsl.go:113-125, 231-246, 406-425). -/
inductive Entry where
  | reference (ref : String) (target : Id) (number : Nat)
  | annotation (ids : List Id) (skip : Bool) (msg : String) (number : Nat)
  | propagation (ref : String) (target : Id) (upRepo : String) (upEntry : Id) (number : Nat)
  deriving Repr, DecidableEq, Inhabited

def Entry.number : Entry → Nat
  | .reference _ _ n => n
  | .annotation _ _ _ n => n
  | .propagation _ _ _ _ n => n

def Entry.withNumber : Entry → Nat → Entry
  | .reference r t _, n => .reference r t n
  | .annotation i s m _, n => .annotation i s m n
  | .propagation r t u e _, n => .propagation r t u e n

def Entry.isAnnotation : Entry → Bool
  | .annotation .. => true
  | _ => false

def Entry.isReference : Entry → Bool
  | .reference .. => true
  | _ => false

/-- `GetRefName` of a ReferenceUpdaterEntry; `none` for annotations. -/
def Entry.refName? : Entry → Option String
  | .reference r _ _ => some r
  | .propagation r _ _ _ _ => some r
  | .annotation .. => none

def Entry.target? : Entry → Option Id
  | .reference _ t _ => some t
  | .propagation _ t _ _ _ => some t
  | .annotation .. => none

structure Commit where
  parents : List Id
  entry   : Option Entry
  deriving Repr, DecidableEq, Inhabited

structure Store where
  commits : List (Id × Commit) := []
  /-- refs/gittuf/reference-state-log -/
  tip     : Option Id := none
  deriving Repr, DecidableEq, Inhabited

def Store.get (s : Store) (i : Id) : Option Commit := s.commits.lookup i

/-- An entry as the readers hold it: the parsed message plus the commit id. -/
structure LEntry where
  id : Id
  e  : Entry
  deriving Repr, DecidableEq, Inhabited

def LEntry.number (x : LEntry) : Nat := x.e.number
def LEntry.isAnnotation (x : LEntry) : Bool := x.e.isAnnotation

inductive RErr where
  | notFound     -- ErrRSLEntryNotFound
  | branch       -- ErrRSLBranchDetected
  | invalid      -- ErrInvalidRSLEntry
  | badOptions   -- ErrInvalidGetLatestReferenceUpdaterEntryOptions / ErrCannotUseEntryNumberFilter / ErrInvalidUntilEntryNumberCondition
  | noRecord     -- ErrNoRecordOfCommit
  | other
  deriving Repr, DecidableEq, Inhabited

/-- `gittufNamespacePrefix` test (`strings.HasPrefix(ref, "refs/gittuf/")`). -/
def isGittufRef (r : String) : Bool := "refs/gittuf/".toList.isPrefixOf r.toList

/-- rsl.go:1379-1389 -/
def isRelevantGittufRef (r : String) : Bool :=
  if !isGittufRef r then false else
  if r == "refs/gittuf/policy-staging" then false else true

/-- `AnnotationEntry.RefersTo` (rsl.go:306-314); false for other kinds. -/
def Entry.refersTo : Entry → Id → Bool
  | .annotation ids _ _ _, i => ids.contains i
  | _, _ => false

def Entry.skips : Entry → Id → Bool
  | .annotation ids sk _ _, i => ids.contains i && sk
  | _, _ => false

/-- `ReferenceEntry.SkippedBy` (rsl.go:180-188) -/
def skippedBy (i : Id) (anns : List LEntry) : Bool := anns.any (fun a => a.e.skips i)

/-- `filterAnnotationsForRelevantAnnotations` (rsl.go:1361-1377) -/
def filterRelevant (anns : List LEntry) (i : Id) : List LEntry := anns.filter (fun a => a.e.refersTo i)

/-! ## GetEntry / GetLatestEntry / GetParentForEntry -/

/-- rsl.go:518-536.  Missing object → not found; unparsable message → invalid. -/
def getEntry (s : Store) (i : Id) : Except RErr LEntry :=
  match s.get i with
  | none => .error .notFound
  | some c =>
    match c.entry with
    | none => .error .invalid
    | some e => .ok ⟨i, e⟩

/-- rsl.go:642-652 -/
def getLatestEntry (s : Store) : Except RErr LEntry :=
  match s.tip with
  | none => .error .notFound
  | some t => getEntry s t

/-- The number check of `GetParentForEntry` (rsl.go:565-577): `n` the entry's number, `p` its parent's. -/
def linkOk (n p : Nat) : Bool :=
  match n with
  | 0 => p == 0
  | 1 => p == 0
  | k + 2 => p == k + 1

/-- rsl.go:539-581 (the cache only memoises ids that passed these checks). -/
def getParentForEntry (s : Store) (x : LEntry) : Except RErr LEntry :=
  match s.get x.id with
  | none => .error .other
  | some c =>
    match c.parents with
    | [] => .error .notFound
    | [p] =>
      match getEntry s p with
      | .error e => .error e
      | .ok pe => if linkOk x.e.number pe.e.number then .ok pe else .error .invalid
    | _ :: _ :: _ => .error .branch

/-! ## The shape shared by all reader loops

Every loop in the readers is: examine the current entry (`visit`: stop with a result,
or go on with an updated state), step to the parent with `GetParentForEntry`, run the
checks placed right after the step (`arrive`), repeat.  `ErrRSLEntryNotFound` from the
step means the walk is at the first entry (`atRoot`); any other error is returned as is. -/

inductive Visit (σ ρ : Type) where
  | done (r : Except RErr ρ)
  | cont (st : σ)

structure Walker (σ ρ : Type) where
  visit  : σ → LEntry → Visit σ ρ
  arrive : σ → LEntry → Option (Except RErr ρ) := fun _ _ => none
  atRoot : σ → Except RErr ρ := fun _ => .error .notFound

/-- what a failed step to the parent means for the walk -/
def Walker.endOf {σ ρ : Type} (w : Walker σ ρ) (e : RErr) (st : σ) : Except RErr ρ :=
  match e with
  | .notFound => w.atRoot st
  | e => .error e

def walk {σ ρ : Type} (s : Store) (w : Walker σ ρ) : Nat → σ → LEntry → Except RErr ρ
  | 0, _, _ => .error .other
  | fuel + 1, st, x =>
    match w.visit st x with
    | .done r => r
    | .cont st' =>
      match getParentForEntry s x with
      | .error e => w.endOf e st'
      | .ok p =>
        match w.arrive st' p with
        | some r => r
        | none => walk s w fuel st' p

/-- Enough steps for any acyclic store. -/
def Store.fuel (s : Store) : Nat := s.commits.length + 1

def addAnn (anns : List LEntry) (x : LEntry) : List LEntry :=
  if x.isAnnotation then anns ++ [x] else anns

/-! ## GetLatestReferenceUpdaterEntry (rsl.go:656-802, options.go) -/

structure Opts where
  ref       : String := ""        -- Reference ("" = unset)
  beforeId  : Option Id := none   -- BeforeEntryID (`none` = empty hash)
  beforeNum : Nat := 0
  untilId   : Option Id := none
  untilNum  : Nat := 0
  unskipped : Bool := false
  nonGittuf : Bool := false
  isRef     : Bool := false       -- IsReferenceEntry
  propRepo  : String := ""        -- IsPropagationEntryForRepository
  deriving Repr, DecidableEq, Inhabited

/-- rsl.go:662-680 -/
def Opts.staticBad (o : Opts) : Bool :=
  (o.beforeId.isSome && o.beforeNum != 0) ||
  (o.untilId.isSome && o.untilNum != 0) ||
  (o.beforeNum != 0 && o.untilNum != 0 && o.beforeNum < o.untilNum) ||
  (o.isRef && o.propRepo != "")

/-- rsl.go:689-699, against the latest entry's number -/
def Opts.numBad (o : Opts) (tipNumber : Nat) : Bool :=
  if tipNumber == 0 then o.beforeNum != 0 || o.untilNum != 0
  else o.untilNum != 0 && tipNumber < o.untilNum

def Opts.hasBefore (o : Opts) : Bool := o.beforeId.isSome || o.beforeNum != 0

/-- negation of the loop condition at rsl.go:704 -/
def Opts.isBeforeAnchor (o : Opts) (x : LEntry) : Bool :=
  o.beforeId == some x.id || (x.number != 0 && x.number == o.beforeNum)

/-- rsl.go:735-778, the `ReferenceUpdaterEntry` case; `anns` = allAnnotations so far.
Go keeps a flag `matchesConditions` that every test can only turn off, so the result is
the conjunction of the tests (only a reference entry can be skipped; `IsReferenceEntry`
rules out propagation entries; `IsPropagationEntryForRepository` rules out reference entries). -/
def Opts.matchesConds (o : Opts) (anns : List LEntry) (x : LEntry) : Bool :=
  match x.e with
  | .annotation .. => false
  | .reference r _ _ =>
    (o.ref == "" || r == o.ref) && !(o.unskipped && skippedBy x.id anns) &&
      o.propRepo == "" && !(o.nonGittuf && isGittufRef r)
  | .propagation r _ up _ _ =>
    (o.ref == "" || r == o.ref) && !o.isRef &&
      (o.propRepo == "" || up == o.propRepo) && !(o.nonGittuf && isGittufRef r)

/-- rsl.go:702-719: the initial walk to the before anchor. -/
def preWalker (o : Opts) : Walker (List LEntry) (List LEntry × LEntry) where
  visit anns x := if o.isBeforeAnchor x then .done (.ok (anns, x)) else .cont (addAnn anns x)
  arrive _ p := if p.number < o.untilNum then some (.error .badOptions) else none

/-- Which of the deviations from the documented behaviour are repaired in the model
(`{}` = the code as it stands).
* F5: the `UntilEntryID` test sits after the step to the parent, so the until entry
  itself is never examined (documented inclusive), and an until entry that is the very
  first entry examined does not stop the search.
* F24: after the "before" walk the search starts at the anchor's parent without testing it
  against `UntilEntryNumber`, so with before = until the entry just below the bound is examined. -/
structure Fix where
  f5  : Bool := false
  f24 : Bool := false
  deriving Repr, DecidableEq, Inhabited

def Fix.all : Fix := { f5 := true, f24 := true }

/-- rsl.go:733-797. -/
def mainWalker (fx : Fix) (o : Opts) : Walker (List LEntry) (LEntry × List LEntry) where
  visit anns x :=
    if x.isAnnotation then
      if fx.f5 && o.untilId == some x.id then .done (.error .notFound) else .cont (anns ++ [x])
    else if o.matchesConds anns x then .done (.ok (x, filterRelevant anns x.id))
    else if fx.f5 && o.untilId == some x.id then .done (.error .notFound) else .cont anns
  arrive _ p :=
    if o.untilNum != 0 && p.number < o.untilNum then some (.error .notFound)
    else if !fx.f5 && o.untilId == some p.id then some (.error .notFound)
    else none

def getLatestReferenceUpdaterEntry (fx : Fix) (o : Opts) (s : Store) :
    Except RErr (LEntry × List LEntry) :=
  if o.staticBad then .error .badOptions else
  match getLatestEntry s with
  | .error e => .error e
  | .ok tip =>
    if o.numBad tip.number then .error .badOptions else
    if o.hasBefore then
      match walk s (preWalker o) s.fuel [] tip with
      | .error e => .error e
      | .ok (anns, b) =>
        match getParentForEntry s b with
        | .error e => .error e
        | .ok p =>
          if fx.f24 && o.untilNum != 0 && p.number < o.untilNum then .error .notFound
          else walk s (mainWalker fx o) s.fuel (addAnn anns b) p
    else walk s (mainWalker fx o) s.fuel [] tip

/-! ## GetFirstReferenceUpdaterEntryForRef / GetFirstEntry (rsl.go:807-852) -/

def firstWalker (ref : String) : Walker (Option LEntry × List LEntry) (LEntry × List LEntry) where
  visit st x :=
    match x.e.refName? with
    | some r => .cont (if ref == "" || r == ref then (some x, st.2) else st)
    | none => .cont (st.1, st.2 ++ [x])
  atRoot st :=
    match st.1 with
    | none => .error .notFound
    | some f => .ok (f, filterRelevant st.2 f.id)

def getFirstReferenceUpdaterEntryForRef (ref : String) (s : Store) : Except RErr (LEntry × List LEntry) :=
  match getLatestEntry s with
  | .error e => .error e
  | .ok tip => walk s (firstWalker ref) s.fuel (none, []) tip

def getFirstEntry (s : Store) : Except RErr (LEntry × List LEntry) := getFirstReferenceUpdaterEntryForRef "" s

/-! ## GetNonGittufParentReferenceUpdaterEntryForEntry (rsl.go:586-639) -/

/-- first loop: collect, step, stop once standing on the entry's parent -/
def ngSkipWalker (parentId : Id) : Walker (List LEntry) (List LEntry × LEntry) where
  visit anns x := .cont (addAnn anns x)
  arrive anns p := if p.id == parentId then some (.ok (anns, p)) else none

def ngMainWalker : Walker (List LEntry) (LEntry × List LEntry) where
  visit anns x :=
    match x.e.refName? with
    | some r => if !isGittufRef r then .done (.ok (x, filterRelevant anns x.id)) else .cont anns
    | none => .cont (anns ++ [x])

def getNonGittufParent (x : LEntry) (s : Store) : Except RErr (LEntry × List LEntry) :=
  match getLatestEntry s with
  | .error e => .error e
  | .ok tip =>
    match getParentForEntry s x with
    | .error e => .error e
    | .ok par =>
      match walk s (ngSkipWalker par.id) s.fuel [] tip with
      | .error e => .error e
      | .ok (anns, it) => walk s ngMainWalker s.fuel anns it

/-! ## GetFirstReferenceUpdaterEntryForCommit (rsl.go:918-961)
`knows a b` = `storer.KnowsCommit(a, b)`: commit `b` is reachable from commit `a`. -/

def forCommitLoop (knows : Id → Id → Bool) (commit : Id) (s : Store) :
    Nat → LEntry × List LEntry → Except RErr (LEntry × List LEntry)
  | 0, _ => .error .other
  | fuel + 1, cur =>
    match getNonGittufParent cur.1 s with
    | .error .notFound => .ok cur
    | .error e => .error e
    | .ok nxt =>
      match nxt.1.e.target? with
      | none => .error .other
      | some t => if !knows t commit then .ok cur else forCommitLoop knows commit s fuel nxt

def getFirstReferenceUpdaterEntryForCommit (knows : Id → Id → Bool) (commit : Id) (s : Store) :
    Except RErr (LEntry × List LEntry) :=
  match getLatestReferenceUpdaterEntry {} { nonGittuf := true } s with
  | .error .notFound => .error .noRecord
  | .error e => .error e
  | .ok first =>
    match first.1.e.target? with
    | none => .error .other
    | some t =>
      if !knows t commit then .error .noRecord
      else forCommitLoop knows commit s s.fuel first

/-! ## GetReferenceUpdaterEntriesInRangeForRef (rsl.go:977-1067) -/

def relevantFor (refName : String) (x : LEntry) : Bool :=
  match x.e.refName? with
  | some r => refName == "" || r == refName || isRelevantGittufRef r
  | none => false

/-- phase 1: down to the entry `lastID`, storing annotations -/
def rangeSkipWalker (last : Id) : Walker (List LEntry) (List LEntry × LEntry) where
  visit anns x := if x.id == last then .done (.ok (anns, x)) else .cont (addAnn anns x)

/-- phase 2: down to `firstID`; state = (entryStack, allAnnotations) -/
def rangeMainWalker (first : Id) (refName : String) :
    Walker (List LEntry × List LEntry) ((List LEntry × List LEntry) × LEntry) where
  visit st x :=
    if x.id == first then .done (.ok (st, x)) else
    if x.isAnnotation then .cont (st.1, st.2 ++ [x])
    else if relevantFor refName x then .cont (st.1 ++ [x], st.2) else .cont st

/-- rsl.go:1039-1056: the annotation map's value for entry `i` — walking `allAnnotations`
backwards, an annotation is appended once for every time it lists `i`. -/
def annotationMapFor (anns : List LEntry) (i : Id) : List LEntry :=
  anns.reverse.flatMap (fun a =>
    match a.e with
    | .annotation ids _ _ _ => (ids.filter (· == i)).map (fun _ => a)
    | _ => [])

/-- Result: the entries oldest first, and for each of them (same order) the annotations on
it, oldest first (the Go map, keyed by entry id). -/
def getReferenceUpdaterEntriesInRangeForRef (first last : Id) (refName : String) (s : Store) :
    Except RErr (List (LEntry × List LEntry)) :=
  match getLatestEntry s with
  | .error e => .error e
  | .ok tip =>
    match walk s (rangeSkipWalker last) s.fuel [] tip with
    | .error e => .error e
    | .ok (anns, it) =>
      match walk s (rangeMainWalker first refName) s.fuel ([], anns) it with
      | .error e => .error e
      | .ok ((stack, anns), f) =>
        let stack := if relevantFor refName f then stack ++ [f] else stack
        .ok (stack.reverse.map (fun x => (x, annotationMapFor anns x.id)))

/-! ## The chain as a list (newest first), for the driver -/

def chainAux (s : Store) : Nat → Id → List (Id × Commit)
  | 0, _ => []
  | fuel + 1, i =>
    match s.get i with
    | none => []
    | some c => (i, c) :: (match c.parents with | [] => [] | p :: _ => chainAux s fuel p)

/-- first-parent walk from the tip -/
def Store.chain (s : Store) : List (Id × Commit) :=
  match s.tip with
  | none => []
  | some t => chainAux s s.fuel t

/-! ## Recording (C03) -/

/-- an id not in the store -/
def Store.fresh (s : Store) : Id := (s.commits.map (·.1)).foldr max 0 + 1

/-- `setEntryNumber` (rsl.go:190-204, 330-344, 486-500) -/
def setEntryNumber (s : Store) : Except RErr Nat :=
  match getLatestEntry s with
  | .ok x => .ok (x.number + 1)
  | .error .notFound => .ok 1
  | .error e => .error e

/-- What `parseRSLEntryText` makes of `createCommitMessage`'s output: an annotation
without ids is written without complaint but does not parse back (rsl.go:1213-1216). -/
def parseBack (e : Entry) : Option Entry :=
  match e with
  | .annotation [] _ _ _ => none
  | e => some e

/-- `commitEntry` (rsl.go:61-69) → `Repository.Commit` (gitinterface/commit.go:23-57): a new
commit whose only parent is the current tip (none for the first), then the ref moves to it. -/
def commitEntry (s : Store) (e : Entry) : Store × Id :=
  let i := s.fresh
  ({ commits := (i, { parents := s.tip.toList, entry := parseBack e }) :: s.commits, tip := some i }, i)

inductive Op where
  | reference (ref : String) (target : Id)
  | annotation (ids : List Id) (skip : Bool) (msg : String)
  | propagation (ref : String) (target : Id) (upRepo : String) (upEntry : Id)
  | referenceLegacy (ref : String) (target : Id)                -- CommitWithoutNumber
  | annotationLegacy (ids : List Id) (skip : Bool) (msg : String)
  deriving Repr, DecidableEq, Inhabited

/-- the loop at rsl.go:267-271 -/
def checkIds (s : Store) : List Id → Except RErr Unit
  | [] => .ok ()
  | i :: is =>
    match getEntry s i with
    | .error e => .error e
    | .ok _ => checkIds s is

/-- One recording operation: the new store and either the ids appended or the error. -/
def step (s : Store) : Op → Store × Except RErr (List Id)
  | .reference r t =>
    match setEntryNumber s with
    | .error e => (s, .error e)
    | .ok n => let (s', i) := commitEntry s (.reference r t n); (s', .ok [i])
  | .propagation r t u ue =>
    match setEntryNumber s with
    | .error e => (s, .error e)
    | .ok n => let (s', i) := commitEntry s (.propagation r t u ue n); (s', .ok [i])
  | .annotation ids sk m =>
    match checkIds s ids with
    | .error e => (s, .error e)
    | .ok _ =>
      match setEntryNumber s with
      | .error e => (s, .error e)
      | .ok n => let (s', i) := commitEntry s (.annotation ids sk m n); (s', .ok [i])
  | .referenceLegacy r t =>
    let (s', i) := commitEntry s (.reference r t 0); (s', .ok [i])
  | .annotationLegacy ids sk m =>
    match checkIds s ids with
    | .error e => (s, .error e)
    | .ok _ => let (s', i) := commitEntry s (.annotation ids sk m 0); (s', .ok [i])

/-! ### SkipAllInvalidReferenceEntriesForRef (rsl.go:859-911)
`knows a b` = `storer.KnowsCommit(a, b)`. -/

/-- the loop at rsl.go:881-904: from the previous entry for the ref downwards, *every*
reference entry (whatever its ref) whose target is not contained in the latest target is
collected, until one is contained or the first entry is reached. -/
def skipWalker (knows : Id → Id → Bool) (latestTarget : Id) : Walker (List Id) (List Id) where
  visit acc x :=
    match x.e with
    | .reference _ t _ => if !knows latestTarget t then .cont (acc ++ [x.id]) else .done (.ok acc)
    | _ => .cont acc
  atRoot acc := .ok acc

def skipAllInvalid (knows : Id → Id → Bool) (ref : String) (s : Store) : Store × Except RErr (List Id) :=
  match getLatestReferenceUpdaterEntry {} { ref := ref } s with
  | .error e => (s, .error e)
  | .ok (latest, _) =>
    match getLatestReferenceUpdaterEntry {} { ref := ref, beforeId := some latest.id } s with
    | .error .notFound => (s, .ok [])
    | .error e => (s, .error e)
    | .ok (it, _) =>
      match latest.e.target? with
      | none => (s, .error .other)
      | some lt =>
        match walk s (skipWalker knows lt) s.fuel [] it with
        | .error e => (s, .error e)
        | .ok [] => (s, .ok [])
        | .ok (i :: is) =>
          step s (.annotation (i :: is) true "Automated skip of reference entries pointing to non-existent entries")

def run (s : Store) : List Op → Store
  | [] => s
  | op :: ops => run (step s op).1 ops

end Gittuf.RSL
