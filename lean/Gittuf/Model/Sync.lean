/-
Model of experimental/gittuf/rsl.go: ReconcileLocalRSLWithRemote (250-423), sync (439-692),
getRSLEntriesUntil (694-718), getLatestRefTipsFromRSLEntries (720-751), with the
fast-forward-only transfer steps of pkg/gitinterface/sync.go:40-93 and references.go:182-218.

A log is the list of its entries, oldest first.  Ids are symbolic (`Nat`): the id of an entry
stands for its commit id, i.e. for the entry *and its whole history* (content hash) — two logs
share exactly the entries of their longest common prefix.  Re-recording allocates ids
`fresh, fresh+1, …` that occur nowhere yet (git: hash of new content).
Core Lean only (this file is linked into the driver executable).
-/
namespace Gittuf.Sync

abbrev EId := Nat
/-- ids of the objects references point to -/
abbrev Obj := Nat

inductive Body where
  | reference (ref : String) (target : Obj)
  | annotation (ids : List EId) (skip : Bool) (msg : String)
  | propagation (ref : String) (target : Obj) (upRepo : String) (upEntry : Obj)
  deriving Repr, DecidableEq, Inhabited

structure Entry where
  id : EId
  body : Body
  deriving Repr, DecidableEq, Inhabited

abbrev Log := List Entry

/-- old entry id ↦ id of its re-recorded counterpart -/
abbrev IdMap := List (EId × EId)

def applyMap (m : IdMap) (i : EId) : EId := (m.lookup i).getD i

/-- The two faces of defect F12 as flags; `current` is the code of /repo as it stands. -/
structure Variant where
  /-- F12: the replay loop re-records an annotation with the ids it held before (rsl.go:407) -/
  annOldIds : Bool := true
  /-- F12b: propagation entries are neither replayed (the `switch` of rsl.go:401-410 has no
  case for them) nor looked at by the conflict check (rsl.go:367, 375) -/
  dropProp : Bool := true
  deriving Repr, DecidableEq, Inhabited

def Variant.current : Variant := {}
def Variant.repaired : Variant := { annOldIds := false, dropProp := false }

inductive Err where
  | conflict     -- "both RSLs contain changes to the same refs" (rsl.go:383-385)
  | noAncestor   -- git merge-base finds nothing (rsl.go:349-352)
  | noLog        -- a side has no RSL: GetReference / the tracker fetch fails (rsl.go:277-291)
  deriving Repr, DecidableEq, Inhabited

/-- (shared prefix, local-only suffix, remote-only suffix).  GetCommonAncestor (merge-base of
the two tips, rsl.go:349) is the last entry of the shared prefix; getRSLEntriesUntil (694-718)
walks from a tip down to — excluding — that entry. -/
def splitCommon : Log → Log → Log × Log × Log
  | a :: as, b :: bs =>
    if a.id = b.id then
      let r := splitCommon as bs
      (a :: r.1, r.2.1, r.2.2)
    else ([], a :: as, b :: bs)
  | l, r => ([], l, r)

/-- the reference an entry contributes to `localUpdatedRefs` / `remoteUpdatedRefs`
(rsl.go:364-378): only `*rsl.ReferenceEntry` is looked at -/
def changedRef (v : Variant) (e : Entry) : Option String :=
  match e.body with
  | .reference r _ => some r
  | .propagation r _ _ _ => if v.dropProp then none else some r
  | .annotation .. => none

def updatedRefs (v : Variant) (es : Log) : List String := es.filterMap (changedRef v)

/-- rsl.go:382-385 -/
def conflicting (v : Variant) (lo ro : Log) : Bool :=
  (updatedRefs v lo).any (fun r => (updatedRefs v ro).contains r)

def renameBody (m : IdMap) : Body → Body
  | .annotation ids s msg => .annotation (ids.map (applyMap m)) s msg
  | b => b

/-- The replay loop (rsl.go:394-419), oldest local-only entry first: every entry is recorded
anew on top of the log, which gives it the next fresh id. `m` maps the entries replayed so far. -/
def replay (v : Variant) : Nat → IdMap → Log → Log × IdMap
  | _, m, [] => ([], m)
  | f, m, e :: es =>
    match e.body with
    | .reference r t =>
      let r' := replay v (f + 1) (m ++ [(e.id, f)]) es
      ({ id := f, body := .reference r t } :: r'.1, r'.2)
    | .annotation ids s msg =>
      let b := if v.annOldIds then Body.annotation ids s msg else renameBody m (.annotation ids s msg)
      let r' := replay v (f + 1) (m ++ [(e.id, f)]) es
      ({ id := f, body := b } :: r'.1, r'.2)
    | .propagation r t u ue =>
      if v.dropProp then replay v f m es
      else
        let r' := replay v (f + 1) (m ++ [(e.id, f)]) es
        ({ id := f, body := .propagation r t u ue } :: r'.1, r'.2)

structure ReconcileOut where
  res : Except Err Unit
  /-- the local log afterwards -/
  log : Log
  map : IdMap := []
  deriving Repr

/-- ReconcileLocalRSLWithRemote (rsl.go:250-423). -/
def reconcile (v : Variant) (fresh : Nat) (localLog remoteLog : Log) : ReconcileOut :=
  -- 277-291: the remote's RSL is fetched into the tracker, the local RSL ref is read
  if localLog.isEmpty || remoteLog.isEmpty then { res := .error .noLog, log := localLog } else
  let (shared, lo, ro) := splitCommon localLog remoteLog
  -- 308: same tip
  if lo.isEmpty && ro.isEmpty then { res := .ok (), log := localLog } else
  -- 314-326: the remote knows the local tip: fast-forward fetch
  if lo.isEmpty then { res := .ok (), log := remoteLog } else
  -- 331-340: local is ahead, nothing to do
  if ro.isEmpty then { res := .ok (), log := localLog } else
  -- 349: merge-base
  if shared.isEmpty then { res := .error .noAncestor, log := localLog } else
  -- 364-385
  if conflicting v lo ro then { res := .error .conflict, log := localLog } else
  -- 388: local RSL := remote tip; 394-419: replay
  let r := replay v fresh [] lo
  { res := .ok (), log := remoteLog ++ r.1, map := r.2 }

/-! ### getLatestRefTipsFromRSLEntries (rsl.go:720-751) -/

def annSkips (a : Entry) (i : EId) : Bool :=
  match a.body with
  | .annotation ids true _ => ids.contains i
  | _ => false

/-- `entry.SkippedBy(annotationsMap[id])` -/
def skippedBy (anns : List Entry) (i : EId) : Bool := anns.any (fun a => annSkips a i)

/-- the loop, over entries newest first; `anns` are the annotations met so far, `tips` the map
under construction (kept in order of insertion) -/
def refTipsLoop : List Entry → List Entry → List (String × Obj) → List (String × Obj)
  | [], _, tips => tips
  | e :: es, anns, tips =>
    match e.body with
    | .reference r t =>
      if (tips.lookup r).isSome then refTipsLoop es anns tips
      else if skippedBy anns e.id then refTipsLoop es anns tips
      else refTipsLoop es anns (tips ++ [(r, t)])
    | .propagation .. => refTipsLoop es anns tips     -- 736-739: nothing is recorded
    | .annotation .. => refTipsLoop es (e :: anns) tips

/-- `es` oldest first (getRSLEntriesUntil returns them newest first) -/
def refTips (es : Log) : List (String × Obj) := refTipsLoop es.reverse [] []

/-! ### sync (rsl.go:439-692) over two abstract repositories -/

abbrev Refs := List (String × Obj)

structure Repo where
  log : Log
  refs : Refs
  deriving Repr, DecidableEq, Inhabited

def setRef (refs : Refs) (r : String) (t : Obj) : Refs :=
  if (refs.lookup r).isSome then refs.map (fun p => if p.1 == r then (r, t) else p) else refs ++ [(r, t)]

inductive SyncRes where
  | ok
  | diverged (refs : List String)   -- ErrDivergedRefs with the list returned next to it
  | pushFailed                       -- git push exits non-zero
  | other
  deriving Repr, DecidableEq, Inhabited

def rslRef : String := "refs/gittuf/reference-state-log"

/-- one `git push origin r:r` per reference, fast-forward only (references.go:182-218 builds
the refspecs without `+`).  A source that does not exist fails the whole command before
anything is sent; otherwise every reference is decided on its own: created, fast-forwarded,
or rejected — git pushes the others all the same and exits non-zero. -/
def pushRefs (knows : Obj → Obj → Bool) (names : List String) (lrefs rrefs : Refs) : Option (Refs × Bool) :=
  if names.any (fun r => (lrefs.lookup r).isNone) then none else
  some (names.foldl (fun (acc : Refs × Bool) r =>
    match lrefs.lookup r with
    | none => acc
    | some lt =>
      match acc.1.lookup r with
      | none => (setRef acc.1 r lt, acc.2)
      | some rt => if knows lt rt then (setRef acc.1 r lt, acc.2) else (acc.1, false)) (rrefs, true))

/-- rsl.go:534-580 / 630-676: for every reference with a tip among the remote-only entries that
exists locally: fast-forward, or diverged -/
def classifyTips (knows : Obj → Obj → Bool) (tips : Refs) (lrefs : Refs) : Refs × List String :=
  tips.foldl (fun (acc : Refs × List String) (p : String × Obj) =>
    match lrefs.lookup p.1 with
    | none => acc
    | some lt => if knows p.2 lt then (acc.1 ++ [p], acc.2) else (acc.1, acc.2 ++ [p.1])) ([], [])

def sortStrings (l : List String) : List String := (l.toArray.qsort (· < ·)).toList

/-- `sync` (one pass; `Sync` runs it, then the propagation workflow — a no-op without a policy
— then runs it again, which finds nothing left to do after a successful first pass). -/
def sync (knows : Obj → Obj → Bool) (overwrite : Bool) (l r : Repo) : SyncRes × Repo × Repo :=
  if l.log.isEmpty || r.log.isEmpty then (.other, l, r) else
  let (shared, lo, ro) := splitCommon l.log r.log
  -- 477
  if lo.isEmpty && ro.isEmpty then (.ok, l, r) else
  -- 485-509: local ahead: push the log and every reference with a tip among the local-only entries
  if ro.isEmpty then
    let names := (refTips lo).map (·.1)
    match pushRefs knows names l.refs r.refs with
    | none => (.pushFailed, l, r)
    | some (rrefs, allOk) => (if allOk then .ok else .pushFailed, l, { log := l.log, refs := rrefs })
  -- 514-603: remote ahead
  else if lo.isEmpty then
    let tips := refTips ro
    let (ff, div) := classifyTips knows tips l.refs
    if !div.isEmpty && !overwrite then (.diverged (sortStrings div), l, r) else
    let upd := ff ++ tips.filter (fun p => div.contains p.1)
    (.ok, { log := r.log, refs := upd.foldl (fun acc p => setRef acc p.1 p.2) l.refs }, r)
  -- 605-611: the logs have diverged
  else if !overwrite then (.diverged [rslRef], l, r)
  else if shared.isEmpty then (.other, l, r)
  else
    let tips := refTips ro
    let (ff, div) := classifyTips knows tips l.refs
    let upd := ff ++ tips.filter (fun p => div.contains p.1)
    (.ok, { log := r.log, refs := upd.foldl (fun acc p => setRef acc p.1 p.2) l.refs }, r)

end Gittuf.Sync
