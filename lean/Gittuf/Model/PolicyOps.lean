import Gittuf.Model.Verify
/-!
Model of the operations that move the policy references
(internal/policy/policy.go: `State.Commit` 717-783, `Apply` 785-874, `Discard` 877-895,
`ReconcileStaging` 897-1075) and of the `experimental/gittuf` API layer above them
(root.go: `loadRootMetadata` 1404-1421 refuses signers that are not root principals of the state
being edited, `updateRootMetadata` 1423-1441; targets.go; policy.go `StagePolicy` / `ApplyPolicy` /
`DiscardPolicy`).

Abstract state: a `World` (policy states = policy commits, numbered in order of creation; the log)
plus the parent of every policy commit and the two references.  Core Lean only.
-/
namespace Gittuf

/-- Variant of the code under check.  `f9_noVerifyNewState = true`: `Apply` as it stands (only the
staged state's internal consistency is checked).  `false`: the repair — `Apply` additionally loads
the currently applied state through `LoadCurrentState(PolicyRef)` (full chain verification) and
demands `applied.VerifyNewState(staged)` for the staged tip. -/
structure OpsVariant where
  f9_noVerifyNewState : Bool := true
  deriving Repr, DecidableEq, Inhabited

def OpsVariant.current : OpsVariant := {}
def OpsVariant.good : OpsVariant := { f9_noVerifyNewState := false }

inductive OErr where
  | invalid        -- policy.ErrInvalidPolicy (a reference disagrees with its latest log entry)
  | notAncestor    -- policy.ErrNotAncestor
  | unauthorized   -- gittuf.ErrUnauthorizedKey
  | panic          -- the call panics (nil dereference in State.HasRuleName)
  | other
  deriving Repr, DecidableEq, Inhabited

structure PState where
  W       : World := { trees := [], commits := [], policies := [], atts := [], log := [] }
  parent  : List (Option Nat) := []     -- parent of policy commit i (same length as W.policies)
  tags    : List String := []           -- commit message of policy commit i
  polRef  : Option Nat := none          -- refs/gittuf/policy
  stgRef  : Option Nat := none          -- refs/gittuf/policy-staging
  probe   : Option Nat := none          -- refs/heads/probe (index into W.commits)
  deriving Inhabited

abbrev Res := Except OErr Unit

def probeRefName : String := "refs/heads/probe"

namespace PState

def parentOf (s : PState) (i : Nat) : Option Nat := (s.parent[i]?).join
def content (s : PState) (i : Nat) : Option Policy := s.W.policies[i]?

def knowsAux (s : PState) : Nat → Nat → Nat → Bool
  | 0, _, _ => false
  | fuel + 1, a, b => a == b || (match s.parentOf a with | none => false | some p => knowsAux s fuel p b)

/-- `KnowsCommit(a, b)` on policy commits: `b` is `a` or an ancestor of `a` -/
def knows (s : PState) (a b : Nat) : Bool := s.knowsAux (s.parent.length + 1) a b

def refEntry (ref : String) (i : Nat) : LogEntry := { kind := .ref, ref := ref, target := .policy i }

def appendLog (s : PState) (e : LogEntry) : PState := { s with W := { s.W with log := s.W.log ++ [e] } }

/-- latest log entry for `ref` (index) — `GetLatestReferenceUpdaterEntry(ForReference(ref))` -/
def latestIdx (s : PState) (ref : String) : Option Nat := s.W.latestFor ref s.W.log.length

def latestTarget (s : PState) (ref : String) : Option Target :=
  (s.latestIdx ref).bind (fun j => (s.W.log[j]?).map (·.target))

/-- does the reference agree with its latest log entry?  (policy.go:799-826 / 900-958) -/
inductive RefLog where
  | absent                 -- neither reference nor entry
  | consistent (tip : Nat) -- both, equal
  | mismatch               -- only one of them, or different targets
  deriving Repr, DecidableEq

def refLog (ref : Option Nat) (entry : Option Target) : RefLog :=
  match ref, entry with
  | none, none => .absent
  | some t, some e => if e = .policy t then .consistent t else .mismatch
  | _, _ => .mismatch

def policyRefLog (s : PState) : RefLog := refLog s.polRef (s.latestTarget policyRef)
def stagingRefLog (s : PState) : RefLog := refLog s.stgRef (s.latestTarget policyStagingRef)

/-- a policy commit is determined by (parent, tree, message): the test repositories run on a fixed
clock, so an identical commit is the same object -/
def findState (s : PState) (parent : Option Nat) (P : Policy) (tag : String) : Option Nat :=
  (List.range s.W.policies.length).find? (fun j =>
    s.parent[j]? == some parent && s.W.policies[j]? == some P && s.tags[j]? == some tag)

def addState (s : PState) (parent : Option Nat) (P : Policy) (tag : String) : Nat × PState :=
  match s.findState parent P tag with
  | some j => (j, s)
  | none => (s.W.policies.length,
      { s with W := { s.W with policies := s.W.policies ++ [P] }, parent := s.parent ++ [parent], tags := s.tags ++ [tag] })

/-- `State.Commit(repo, tag, createRSLEntry, _)`: a new commit on top of the staging reference,
optionally recorded in the log (policy.go:717-783) -/
def commitStaging (s : PState) (P : Policy) (tag : String) (entry : Bool) : PState :=
  let (i, s1) := s.addState s.stgRef P tag
  let s2 := { s1 with stgRef := some i }
  if entry then s2.appendLog (refEntry policyStagingRef i) else s2

def rebaseTag : String := "Rebase policy staging\n"

/-- `ReconcileStaging` (policy.go:897-1075) -/
def reconcile (s : PState) : Except OErr PState :=
  match s.policyRefLog with
  | .mismatch => .error .invalid
  | pl =>
    match s.stagingRefLog with
    | .mismatch => .error .invalid
    | sl =>
      match pl with
      | .consistent pt =>
        (match sl with
         | .consistent st =>
           if pt == st then .ok s
           else if s.knows st pt then .ok s                      -- staging is ahead of policy
           else if s.knows pt st then                            -- policy strictly ahead: fast-forward staging
             .ok ({ s with stgRef := some pt }.appendLog (refEntry policyStagingRef pt))
           else
             -- diverged: the staged metadata is committed again on top of the policy tip
             match (s.latestIdx policyRef).bind (fun j => (s.W.loadRaw j).toOption),
                   (s.latestIdx policyStagingRef).bind (fun j => (s.W.loadRaw j).toOption) with
             | some _, some staged =>
               let s1 := { s with stgRef := some pt }.appendLog (refEntry policyStagingRef pt)
               .ok (s1.commitStaging staged rebaseTag true)
             | _, _ => .error .other
         | _ => .error .other)       -- no staging reference: KnowsCommit on the zero id fails
      | _ => .ok s                   -- no applied policy: nothing to reconcile

/-- the fast-forward check of `Apply` (policy.go:835-848), only made when a policy tip exists -/
def notDescends (s : PState) (st : Nat) : Bool :=
  match s.polRef with
  | some pt => !s.knows st pt
  | none => false

/-- the checks of `Apply` after reconciliation (policy.go:795-858): the staged state that may be
published, or the refusal -/
def applyChecks (v : OpsVariant) (s : PState) : Except OErr Nat :=
  match s.policyRefLog with
  | .mismatch => .error .invalid
  | _ =>
    match s.stgRef with
    | none => .error .other
    | some st =>
      if s.notDescends st then .error .notAncestor else
      match s.latestIdx policyStagingRef with
      | none => .error .other
      | some e =>
        match s.W.loadState e with                      -- LoadCurrentState(PolicyStagingRef)
        | .error _ => .error .other
        | .ok P =>
          match P.verify with                           -- state.Verify
          | .error _ => .error .other
          | .ok () =>
            if v.f9_noVerifyNewState then .ok st else
            match s.latestIdx policyRef with
            | none => .ok st
            | some p =>
              match s.W.loadState p with                -- repair: LoadCurrentState(PolicyRef) …
              | .error _ => .error .other
              | .ok cur =>
                match cur.verifyNewState P with         -- … and cur.VerifyNewState(staged)
                | .error _ => .error .other
                | .ok () => .ok st

/-- `Apply` (policy.go:785-874) -/
def apply (v : OpsVariant) (s : PState) : PState × Res :=
  match s.reconcile with
  | .error e => (s, .error e)
  | .ok s1 =>
    match s1.applyChecks v with
    | .error e => (s1, .error e)       -- what reconciliation did to staging stays
    | .ok st => ({ s1 with polRef := some st }.appendLog (refEntry policyRef st), .ok ())

/-- `Discard` (policy.go:877-895) -/
def discard (s : PState) : PState × Res := ({ s with stgRef := s.polRef }, .ok ())

inductive RefSel where
  | policy | staging
  deriving Repr, DecidableEq, Inhabited

def RefSel.name : RefSel → String
  | .policy => policyRef
  | .staging => policyStagingRef

def getRef (s : PState) : RefSel → Option Nat
  | .policy => s.polRef
  | .staging => s.stgRef

def setRef (s : PState) (r : RefSel) (t : Option Nat) : PState :=
  match r with
  | .policy => { s with polRef := t }
  | .staging => { s with stgRef := t }

/-- direct `SetReference` / `DeleteReference`, no log entry -/
def tamper (s : PState) (r : RefSel) (t : Option Nat) : PState × Res :=
  match t with
  | none => (s.setRef r none, .ok ())
  | some i => if i < s.W.policies.length then (s.setRef r (some i), .ok ()) else (s, .error .other)

/-- record the reference's tip in the log; `dup`: with the duplicate check of
`RecordRSLEntryForReference` (rsl.go:97-106), as `StagePolicy` does -/
def record (s : PState) (r : RefSel) (dup : Bool) : PState × Res :=
  match s.getRef r with
  | none => (s, .error .other)
  | some tip =>
    if dup && s.latestTarget r.name == some (.policy tip) then (s, .ok ())
    else (s.appendLog (refEntry r.name tip), .ok ())

/-- a new commit on refs/heads/probe, recorded (unsigned) -/
def pushProbe (s : PState) : PState × Res :=
  let c := s.W.commits.length
  let t := s.W.trees.length
  let W := { s.W with trees := s.W.trees ++ [[("f", c)]],
                      commits := s.W.commits ++ [{ parents := s.probe.toList, tree := t, signer := none }],
                      log := s.W.log ++ [{ kind := .ref, ref := probeRefName, target := .commit c }] }
  ({ s with W := W, probe := some c }, .ok ())

/-! ### the API layer -/

inductive EditKind where
  | initRoot
  | addRootKey (k : KeyId) | removeRootKey (k : KeyId) | rootThreshold (n : Int)
  | addTargetsKey (k : KeyId) | removeTargetsKey (k : KeyId) | targetsThreshold (n : Int)
  | addGlobal (name : String) (n : Int) | removeGlobal (name : String)
  | signRoot
  | initTargets | addPrincipal (k : KeyId) | addRule (name : String) (k : KeyId) | removeRule (name : String)
  | signTargets
  deriving Repr, DecidableEq, Inhabited

/-- edits that go through `loadRootMetadata` (root.go:1404): changes of the root of trust -/
def EditKind.isRootEdit : EditKind → Bool
  | .addRootKey _ | .removeRootKey _ | .rootThreshold _ | .addTargetsKey _ | .removeTargetsKey _
  | .targetsThreshold _ | .addGlobal _ _ | .removeGlobal _ => true
  | _ => false

def insertKey (k : KeyId) (l : List KeyId) : List KeyId :=
  if l.contains k then l else (l.filter (· < k)) ++ [k] ++ (l.filter (fun x => k < x))

def resign (signers : List KeyId) (k : KeyId) : List KeyId := signers.filter (· != k) ++ [k]

/-- the tufv02 root mutators (internal/tuf/v02/root.go) for the generated arguments -/
def editRoot (r : Root) : EditKind → Except OErr Root
  | .addRootKey k => .ok { r with rootKeys := insertKey k r.rootKeys }
  | .removeRootKey k =>
    if (r.rootKeys.length : Int) ≤ r.rootThreshold then .error .other
    else .ok { r with rootKeys := r.rootKeys.filter (· != k) }
  | .rootThreshold n =>
    if n ≤ 0 then .error .other else if (r.rootKeys.length : Int) < n then .error .other
    else .ok { r with rootThreshold := n }
  | .addTargetsKey k =>
    if r.targetsKeys.isEmpty then .ok { r with targetsKeys := [k], targetsThreshold := 1 }
    else .ok { r with targetsKeys := insertKey k r.targetsKeys }
  | .removeTargetsKey k =>
    if r.targetsKeys.isEmpty then .error .other
    else if (r.targetsKeys.length : Int) ≤ r.targetsThreshold then .error .other
    else .ok { r with targetsKeys := r.targetsKeys.filter (· != k) }
  | .targetsThreshold n =>
    if r.targetsKeys.isEmpty then .error .other
    else if n ≤ 0 then .error .other else if (r.targetsKeys.length : Int) < n then .error .other
    else .ok { r with targetsThreshold := n }
  | .addGlobal name n =>
    if n ≤ 0 then .error .other else if r.globals.any (·.name == name) then .error .other
    else .ok { r with globals := r.globals ++ [{ name := name, isThreshold := true, patterns := ["git:refs/heads/main"], threshold := n }] }
  | .removeGlobal name =>
    if r.globals.isEmpty then .error .other else .ok { r with globals := r.globals.filter (·.name != name) }
  | _ => .error .other

def editTag : EditKind → Nat → String
  | .initRoot, n => s!"initRoot#{n}"
  | .addRootKey k, _ => s!"addRootKey:{k}"
  | .removeRootKey k, _ => s!"removeRootKey:{k}"
  | .rootThreshold n, _ => s!"rootThreshold:{n}"
  | .addTargetsKey k, _ => s!"addTargetsKey:{k}"
  | .removeTargetsKey k, _ => s!"removeTargetsKey:{k}"
  | .targetsThreshold n, _ => s!"targetsThreshold:{n}"
  | .addGlobal name _, _ => s!"addGlobal:{name}"
  | .removeGlobal name, _ => s!"removeGlobal:{name}"
  | .signRoot, k => s!"signRoot:{k}"
  | .initTargets, n => s!"initTargets#{n}"
  | .addPrincipal k, _ => s!"addPrincipal:{k}"
  | .addRule name _, _ => s!"addRule:{name}"
  | .removeRule name, _ => s!"removeRule:{name}"
  | .signTargets, k => s!"signTargets:{k}"

def mainRule (name : String) (k : KeyId) : Rule :=
  { name := name, patterns := ["git:refs/heads/main"], principals := [1000 + k], threshold := 1 }

def insertPrincipal (p : PrincipalSpec) (l : List PrincipalSpec) : List PrincipalSpec :=
  (l.filter (fun q => q.id < p.id)) ++ [p] ++ (l.filter (fun q => p.id < q.id))

/-- rule-file edits (targets.go; no authorization check in the API) on the primary rule file -/
def editFile (f : RuleFile) (signer : KeyId) : EditKind → Except OErr RuleFile
  | .addPrincipal k =>
    .ok { f with principals := insertPrincipal (keyPrincipal k) f.principals, version := f.version + 1, signers := [signer] }
  | .addRule name k =>
    if !f.principals.any (·.id == 1000 + k) then .error .other else
    .ok { f with rules := f.rules.dropLast ++ [mainRule name k, allowRule], version := f.version + 1, signers := [signer] }
  | .removeRule name =>
    .ok { f with rules := f.rules.filter (·.name != name), version := f.version + 1, signers := [signer] }
  | _ => .error .other

/-- one call of the `experimental/gittuf` API by `signer` on the tip of the staging reference
(`LoadCurrentState(PolicyStagingRef, BypassRSL)`), committed to staging, with a log entry iff `entry` -/
def edit (s : PState) (kind : EditKind) (signer : KeyId) (entry : Bool) : PState × Res :=
  match kind with
  | .initRoot =>
    if s.polRef.isSome || s.stgRef.isSome then (s, .error .other) else   -- ErrCannotReinitialize
    let P : Policy := { root := { version := 1, rootKeys := [signer], rootThreshold := 1, targetsKeys := [],
                                  targetsThreshold := 0, signers := [signer] }, files := [] }
    (s.commitStaging P (editTag kind s.W.policies.length) entry, .ok ())
  | _ =>
    match s.stgRef.bind s.content with
    | none => (s, .error .other)
    | some cur =>
      if kind.isRootEdit then
        if !cur.root.rootKeys.contains signer then (s, .error .unauthorized) else   -- loadRootMetadata
        match editRoot cur.root kind with
        | .error e => (s, .error e)
        | .ok r =>
          let P := { cur with root := { r with version := r.version + 1, signers := [signer] } }
          (s.commitStaging P (editTag kind 0) entry, .ok ())
      else
        match kind with
        | .signRoot =>
          let P := { cur with root := { cur.root with signers := resign cur.root.signers signer } }
          (s.commitStaging P (editTag kind signer) entry, .ok ())
        | .initTargets =>
          if cur.primary.isSome then (s, .error .other) else
          let f : RuleFile := { name := "targets", version := 1, principals := [], rules := [allowRule], signers := [signer] }
          (s.commitStaging { cur with files := [f] } (editTag kind s.W.policies.length) entry, .ok ())
        | .signTargets =>
          (match cur.files with
           | [] => (s, .error .other)
           | f :: rest =>
             (s.commitStaging { cur with files := { f with signers := resign f.signers signer } :: rest } (editTag kind signer) entry, .ok ()))
        | _ =>
          match cur.files with
          | [] =>
            -- AddDelegation consults State.HasRuleName before HasTargetsRole: nil set when there is no rule file
            (match kind with | .addRule _ _ => (s, .error .panic) | _ => (s, .error .other))
          | f :: rest =>
            if (match kind with | .addRule name _ => cur.userRules.any (·.name == name) | _ => false) then (s, .error .other) else
            match editFile f signer kind with
            | .error e => (s, .error e)
            | .ok f' => (s.commitStaging { cur with files := f' :: rest } (editTag kind 0) entry, .ok ())

end PState

inductive Op where
  | stage (P : Policy) (tag : String) (entry : Bool)
  | apply
  | discard
  | tamper (r : PState.RefSel) (t : Option Nat)
  | record (r : PState.RefSel) (dup : Bool)
  | probe
  | edit (kind : PState.EditKind) (signer : KeyId) (entry : Bool)
  deriving Repr, Inhabited

/-- one operation: State → Op → State × Result -/
def PState.step (v : OpsVariant) (s : PState) : Op → PState × Res
  | .stage P tag entry => (s.commitStaging P tag entry, .ok ())
  | .apply => s.apply v
  | .discard => s.discard
  | .tamper r t => s.tamper r t
  | .record r dup => s.record r dup
  | .probe => s.pushProbe
  | .edit kind signer entry => s.edit kind signer entry

def PState.run (v : OpsVariant) (s : PState) : List Op → PState
  | [] => s
  | o :: os => PState.run v (s.step v o).1 os

def PState.init : PState := {}

end Gittuf
