import Gittuf.Spec.C07
namespace Gittuf
namespace World

/-- every element of the queue handed to the fix search ends up in exactly one of: the new queue,
the fix itself, or the skipped / flagged reference entries of the affected reference (or has no log entry) -/
theorem lookForFix_partition (W : World) (ref : String) (goodTree : Nat)
    (q newQ : List Nat) (bad : Bool) (f : Nat) (nq : List Nat)
    (h : W.lookForFix ref goodTree q newQ bad = (some f, false, nq)) :
    (∀ k ∈ newQ, k ∈ nq) ∧
    ∀ k ∈ q, k ∈ nq ∨ k = f ∨ W.log[k]? = none ∨
      (∃ e, W.log[k]? = some e ∧ e.ref = ref ∧ W.skipped k = true) := by
  induction q generalizing newQ bad with
  | nil => simp [lookForFix] at h
  | cons j rest ih =>
    unfold lookForFix at h
    split at h
    · rename_i hnone
      obtain ⟨h1, h2⟩ := ih _ _ h
      refine ⟨h1, ?_⟩
      intro k hk
      rcases List.mem_cons.mp hk with hk | hk
      · subst hk; exact Or.inr (Or.inr (Or.inl hnone))
      · exact h2 k hk
    · rename_i e he
      split at h
      · -- other reference: appended to the new queue
        obtain ⟨h1, h2⟩ := ih _ _ h
        refine ⟨fun k hk => h1 k (List.mem_append_left _ hk), ?_⟩
        intro k hk
        rcases List.mem_cons.mp hk with hk | hk
        · subst hk; exact Or.inl (h1 k (List.mem_append_right _ (by simp)))
        · exact h2 k hk
      · rename_i href
        split at h
        · -- propagation entry of the same reference: appended to the new queue
          obtain ⟨h1, h2⟩ := ih _ _ h
          refine ⟨fun k hk => h1 k (List.mem_append_left _ hk), ?_⟩
          intro k hk
          rcases List.mem_cons.mp hk with hk | hk
          · subst hk; exact Or.inl (h1 k (List.mem_append_right _ (by simp)))
          · exact h2 k hk
        · split at h
          · -- the fix
            simp only [Prod.mk.injEq, Option.some.injEq] at h
            obtain ⟨hf, hb, hnq⟩ := h
            subst hf; subst hnq
            refine ⟨fun k hk => List.mem_append_left _ hk, ?_⟩
            intro k hk
            rcases List.mem_cons.mp hk with hk | hk
            · exact Or.inr (Or.inl hk)
            · exact Or.inl (List.mem_append_right _ hk)
          · -- neither: must be skipped, otherwise the flag would be set
            cases hsk : W.skipped j with
            | true =>
              simp only [hsk, Bool.not_true, Bool.or_false] at h
              obtain ⟨h1, h2⟩ := ih _ _ h
              refine ⟨h1, ?_⟩
              intro k hk
              rcases List.mem_cons.mp hk with hk | hk
              · subst hk
                exact Or.inr (Or.inr (Or.inr ⟨e, he, by simpa using href, hsk⟩))
              · exact h2 k hk
            | false =>
              simp only [hsk, Bool.not_false, Bool.or_true] at h
              exfalso
              have key : ∀ (q' newQ' : List Nat) f' b' nq', W.lookForFix ref goodTree q' newQ' true = (some f', b', nq') → b' = true := by
                intro q'
                induction q' with
                | nil => intro _ _ _ _ h'; simp [lookForFix] at h'
                | cons a as iha =>
                  intro newQ' f' b' nq' h'
                  unfold lookForFix at h'
                  split at h'
                  · exact iha _ _ _ _ h'
                  · split at h'
                    · exact iha _ _ _ _ h'
                    · split at h'
                      · exact iha _ _ _ _ h'
                      · split at h'
                        · simp only [Prod.mk.injEq] at h'; exact h'.2.1.symm
                        · simp only [Bool.true_or] at h'; exact iha _ _ _ _ h'
              have := key _ _ _ _ _ h
              cases this

end World
end Gittuf

namespace Gittuf
namespace World

/-- policy states that were in force at some point of the walk over queue `q` started in state `st` -/
def SeenPolicy (W : World) (st : VState) (q : List Nat) (P : Policy) : Prop :=
  st.policy = some P ∨ ∃ k ∈ q, W.loadRaw k = .ok P

def SeenAtt (W : World) (st : VState) (q : List Nat) (A : Option AttState) : Prop :=
  A = st.att ∨ ∃ k ∈ q, A = W.attAt k

/-- what the loop guarantees for a branch entry `j` -/
def EntryOK (W : World) (v : Variant) (st : VState) (q : List Nat) (j : Nat) (e : LogEntry) : Prop :=
  W.skipped j = true ∨ ∃ P A, SeenPolicy W st q P ∧ SeenAtt W st q A ∧ W.verifyEntry v P A j e = .ok ()

theorem EntryOK.mono {W : World} {v : Variant} {st st' : VState} {q q' : List Nat} {j : Nat} {e : LogEntry}
    (hq : ∀ k ∈ q', k ∈ q)
    (hp : ∀ P, st'.policy = some P → SeenPolicy W st q P)
    (ha : SeenAtt W st q st'.att)
    (h : EntryOK W v st' q' j e) : EntryOK W v st q j e := by
  rcases h with h | ⟨P, A, hP, hA, hv⟩
  · exact Or.inl h
  · refine Or.inr ⟨P, A, ?_, ?_, hv⟩
    · rcases hP with hP | ⟨k, hk, hl⟩
      · exact hp P hP
      · exact Or.inr ⟨k, hq k hk, hl⟩
    · rcases hA with hA | ⟨k, hk, hl⟩
      · rw [hA]; exact ha
      · exact Or.inr ⟨k, hq k hk, hl⟩

theorem gittuf_prefix_policy : hasPrefix policyRef gittufPrefix = true := by decide
theorem gittuf_prefix_staging : hasPrefix policyStagingRef gittufPrefix = true := by decide
theorem gittuf_prefix_att : hasPrefix attestationsRef gittufPrefix = true := by decide

/-- **Loop soundness** (repaired F2/F3 behaviour; any F1/F4/F7 variant): if the verification loop
accepts a queue, every entry of the queue for a non-gittuf reference is either marked skipped or
was accepted by `verifyEntry` under a policy state and an attestation state that were in force
during the walk.  For every history, queue, starting state and fuel. -/
theorem relLoop_sound (W : World) (v : Variant) (first : Nat)
    (hf2 : v.f2_propagationSkipped = false) (hf3 : v.f3_fixNotVerified = false) :
    ∀ (fuel : Nat) (q : List Nat) (st : VState), W.relLoop v first fuel q st = .ok () →
      ∀ j ∈ q, ∀ e, W.log[j]? = some e → hasPrefix e.ref gittufPrefix = false →
        EntryOK W v st q j e := by
  intro fuel
  induction fuel with
  | zero => intro q st h; simp [relLoop] at h
  | succ fuel ih =>
    intro q st h j hj e he hbranch
    cases q with
    | nil => cases hj
    | cons a rest =>
      unfold relLoop at h
      split at h
      · cases h
      · rename_i ea hea
        -- helper: conclude for members of `rest` from the induction hypothesis on (rest, st')
        have tailCase : ∀ (st' : VState), W.relLoop v first fuel rest st' = .ok () →
            (∀ P, st'.policy = some P → SeenPolicy W st (a :: rest) P) →
            SeenAtt W st (a :: rest) st'.att → j ∈ rest → EntryOK W v st (a :: rest) j e := by
          intro st' h' hp ha hjr
          exact EntryOK.mono (fun k hk => List.mem_cons_of_mem _ hk) hp ha (ih rest st' h' j hjr e he hbranch)
        have sameSt : (∀ P, st.policy = some P → SeenPolicy W st (a :: rest) P) := fun P hP => Or.inl hP
        have sameAtt : SeenAtt W st (a :: rest) st.att := Or.inl rfl
        -- `a` itself is a gittuf-namespace entry in the first branches, so `j ≠ a` there
        split at h
        · -- skipped propagation entry (only for gittuf refs when F2 is repaired)
          rename_i hprop
          rcases List.mem_cons.mp hj with hja | hjr
          · subst hja
            rw [hea] at he; cases he
            simp only [hf2, Bool.false_or, Bool.and_eq_true] at hprop
            rw [hprop.2] at hbranch; cases hbranch
          · exact tailCase st h sameSt sameAtt hjr
        · split at h
          · rename_i hstag
            rcases List.mem_cons.mp hj with hja | hjr
            · subst hja
              rw [hea] at he; cases he
              have : e.ref = policyStagingRef := by simpa using hstag
              rw [this, gittuf_prefix_staging] at hbranch; cases hbranch
            · exact tailCase st h sameSt sameAtt hjr
          · split at h
            · rename_i hpol
              have hnotj : j ≠ a := by
                intro hja; subst hja
                rw [hea] at he; cases he
                have : e.ref = policyRef := by simpa using hpol
                rw [this, gittuf_prefix_policy] at hbranch; cases hbranch
              have hjr : j ∈ rest := by
                rcases List.mem_cons.mp hj with hja | hjr
                · exact absurd hja hnotj
                · exact hjr
              split at h
              · exact tailCase st h sameSt sameAtt hjr
              · split at h
                · cases h
                · rename_i newP hnewP
                  have newSeen : ∀ P, (some newP : Option Policy) = some P → SeenPolicy W st (a :: rest) P := by
                    intro P hP; cases hP; exact Or.inr ⟨a, List.mem_cons_self, hnewP⟩
                  split at h
                  · split at h
                    · cases h
                    · split at h
                      · split at h
                        · cases h
                        · exact tailCase { st with policy := some newP } h newSeen sameAtt hjr
                      · exact tailCase { st with policy := some newP } h newSeen sameAtt hjr
                  · split at h
                    · split at h
                      · cases h
                      · exact tailCase { st with policy := some newP } h newSeen sameAtt hjr
                    · exact tailCase { st with policy := some newP } h newSeen sameAtt hjr
            · split at h
              · rename_i hatt
                have hnotj : j ≠ a := by
                  intro hja; subst hja
                  rw [hea] at he; cases he
                  have : e.ref = attestationsRef := by simpa using hatt
                  rw [this, gittuf_prefix_att] at hbranch; cases hbranch
                have hjr : j ∈ rest := by
                  rcases List.mem_cons.mp hj with hja | hjr
                  · exact absurd hja hnotj
                  · exact hjr
                split at h
                · cases h
                · rename_i at' hat'
                  exact tailCase { st with att := some at' } h sameSt (Or.inr ⟨a, List.mem_cons_self, hat'.symm⟩) hjr
              · -- a branch entry: verified, or violation with recovery
                split at h
                · cases h
                · rename_i P hP
                  split at h
                  · -- verified
                    rename_i hver
                    rcases List.mem_cons.mp hj with hja | hjr
                    · subst hja
                      rw [hea] at he; cases he
                      exact Or.inr ⟨P, st.att, Or.inl hP, Or.inl rfl, hver⟩
                    · exact tailCase st h sameSt sameAtt hjr
                  · -- violation
                    rename_i err hverr
                    split at h
                    · cases h
                    · rename_i hskip
                      have hskip' : W.skipped a = true := by simpa using hskip
                      split at h
                      · cases h
                      · split at h
                        · cases h
                        · rename_i lg hlg
                          simp only at h
                          split at h
                          · cases h
                          · rename_i fix bad newQ hfix
                            split at h
                            · cases h
                            · rename_i hbad
                              have hbad' : bad = false := by simpa using hbad
                              subst hbad'
                              simp only [hf3, Bool.false_eq_true, if_false] at h
                              split at h
                              · cases h
                              · rename_i fe hfe
                                split at h
                                · rename_i hfixver
                                  obtain ⟨_, hpart⟩ := lookForFix_partition W ea.ref _ rest [] false fix newQ hfix
                                  rcases List.mem_cons.mp hj with hja | hjr
                                  · subst hja; exact Or.inl hskip'
                                  · rcases hpart j hjr with hin | hisfix | hnone | ⟨e', he', _, hsk⟩
                                    · -- deferred: processed by the rest of the loop
                                      have hsub : ∀ k ∈ newQ, k ∈ a :: rest := by
                                        intro k hk
                                        have := (lookForFix_partition W ea.ref _ rest [] false fix newQ hfix)
                                        -- members of newQ come from rest
                                        exact List.mem_cons_of_mem _ (lookForFix_sub W ea.ref _ rest [] false fix newQ hfix k hk (by simp))
                                      exact EntryOK.mono hsub sameSt sameAtt (ih newQ st h j hin e he hbranch)
                                    · subst hisfix
                                      rw [hfe] at he; cases he
                                      exact Or.inr ⟨P, st.att, Or.inl hP, Or.inl rfl, hfixver⟩
                                    · rw [hnone] at he; cases he
                                    · exact Or.inl hsk
                                · cases h

end World
end Gittuf
