import Gittuf.Spec.C07
namespace Gittuf
namespace World

/-- every element of the queue handed to the fix search ends up in exactly one of: the new queue,
the fix itself, or the skipped / flagged reference entries of the affected reference (or has no log entry) -/
theorem lookForFix_partition (W : World) (ref : String) (goodTree : Nat)
    (q newQ : List Nat) (bad : Bool) (f : Nat) (nq : List Nat)
    (h : W.lookForFix ref goodTree q newQ bad = (some f, false, nq)) :
    (∀ k ∈ newQ, k ∈ nq) ∧
    ∀ k ∈ q, k ∈ nq ∨ k = f ∨ W.log[k]? = none ∨
      (∃ e, W.log[k]? = some e ∧ e.ref = ref ∧ W.skipped k = true) := by
  induction q generalizing newQ bad with
  | nil => simp [lookForFix] at h
  | cons j rest ih =>
    unfold lookForFix at h
    split at h
    · rename_i hnone
      obtain ⟨h1, h2⟩ := ih _ _ h
      refine ⟨h1, ?_⟩
      intro k hk
      rcases List.mem_cons.mp hk with hk | hk
      · subst hk; exact Or.inr (Or.inr (Or.inl hnone))
      · exact h2 k hk
    · rename_i e he
      split at h
      · -- other reference: appended to the new queue
        obtain ⟨h1, h2⟩ := ih _ _ h
        refine ⟨fun k hk => h1 k (List.mem_append_left _ hk), ?_⟩
        intro k hk
        rcases List.mem_cons.mp hk with hk | hk
        · subst hk; exact Or.inl (h1 k (List.mem_append_right _ (by simp)))
        · exact h2 k hk
      · rename_i href
        split at h
        · -- propagation entry of the same reference: appended to the new queue
          obtain ⟨h1, h2⟩ := ih _ _ h
          refine ⟨fun k hk => h1 k (List.mem_append_left _ hk), ?_⟩
          intro k hk
          rcases List.mem_cons.mp hk with hk | hk
          · subst hk; exact Or.inl (h1 k (List.mem_append_right _ (by simp)))
          · exact h2 k hk
        · split at h
          · -- the fix
            simp only [Prod.mk.injEq, Option.some.injEq] at h
            obtain ⟨hf, hb, hnq⟩ := h
            subst hf; subst hnq
            refine ⟨fun k hk => List.mem_append_left _ hk, ?_⟩
            intro k hk
            rcases List.mem_cons.mp hk with hk | hk
            · exact Or.inr (Or.inl hk)
            · exact Or.inl (List.mem_append_right _ hk)
          · -- neither: must be skipped, otherwise the flag would be set
            cases hsk : W.skipped j with
            | true =>
              simp only [hsk, Bool.not_true, Bool.or_false] at h
              obtain ⟨h1, h2⟩ := ih _ _ h
              refine ⟨h1, ?_⟩
              intro k hk
              rcases List.mem_cons.mp hk with hk | hk
              · subst hk
                exact Or.inr (Or.inr (Or.inr ⟨e, he, by simpa using href, hsk⟩))
              · exact h2 k hk
            | false =>
              simp only [hsk, Bool.not_false, Bool.or_true] at h
              exfalso
              have key : ∀ (q' newQ' : List Nat) f' b' nq', W.lookForFix ref goodTree q' newQ' true = (some f', b', nq') → b' = true := by
                intro q'
                induction q' with
                | nil => intro _ _ _ _ h'; simp [lookForFix] at h'
                | cons a as iha =>
                  intro newQ' f' b' nq' h'
                  unfold lookForFix at h'
                  split at h'
                  · exact iha _ _ _ _ h'
                  · split at h'
                    · exact iha _ _ _ _ h'
                    · split at h'
                      · exact iha _ _ _ _ h'
                      · split at h'
                        · simp only [Prod.mk.injEq] at h'; exact h'.2.1.symm
                        · simp only [Bool.true_or] at h'; exact iha _ _ _ _ h'
              have := key _ _ _ _ _ h
              cases this

/-- the new queue only contains elements of the initial new queue and of the searched queue -/
theorem lookForFix_sub (W : World) (ref : String) (goodTree : Nat)
    (q newQ : List Nat) (bad : Bool) (f : Nat) (nq : List Nat)
    (h : W.lookForFix ref goodTree q newQ bad = (some f, false, nq)) :
    ∀ k ∈ nq, (∀ x ∈ newQ, False) → k ∈ q := by
  have gen : ∀ (q newQ : List Nat) (bad : Bool) (b : Bool), W.lookForFix ref goodTree q newQ bad = (some f, b, nq) →
      ∀ k ∈ nq, k ∈ newQ ∨ k ∈ q := by
    intro q
    induction q with
    | nil => intro newQ bad b h; simp [lookForFix] at h
    | cons j rest ih =>
      intro newQ bad b h k hk
      unfold lookForFix at h
      split at h
      · rcases ih _ _ _ h k hk with h1 | h1
        · exact Or.inl h1
        · exact Or.inr (List.mem_cons_of_mem _ h1)
      · split at h
        · rcases ih _ _ _ h k hk with h1 | h1
          · rcases List.mem_append.mp h1 with h2 | h2
            · exact Or.inl h2
            · simp at h2; subst h2; exact Or.inr List.mem_cons_self
          · exact Or.inr (List.mem_cons_of_mem _ h1)
        · split at h
          · rcases ih _ _ _ h k hk with h1 | h1
            · rcases List.mem_append.mp h1 with h2 | h2
              · exact Or.inl h2
              · simp at h2; subst h2; exact Or.inr List.mem_cons_self
            · exact Or.inr (List.mem_cons_of_mem _ h1)
          · split at h
            · simp only [Prod.mk.injEq] at h
              obtain ⟨_, _, hnq⟩ := h
              subst hnq
              rcases List.mem_append.mp hk with h2 | h2
              · exact Or.inl h2
              · exact Or.inr (List.mem_cons_of_mem _ h2)
            · rcases ih _ _ _ h k hk with h1 | h1
              · exact Or.inl h1
              · exact Or.inr (List.mem_cons_of_mem _ h1)
  intro k hk hempty
  rcases gen q newQ bad false h k hk with h1 | h1
  · exact absurd h1 (fun hx => hempty k hx)
  · exact h1

end World
end Gittuf

namespace Gittuf
namespace World

/-- policy states that were in force at some point of the walk over queue `q` started in state `st` -/
def SeenPolicy (W : World) (st : VState) (q : List Nat) (P : Policy) : Prop :=
  st.policy = some P ∨ ∃ k ∈ q, W.loadRaw k = .ok P

def SeenAtt (W : World) (st : VState) (q : List Nat) (A : Option AttState) : Prop :=
  A = st.att ∨ ∃ k ∈ q, A = W.attAt k

/-- what the loop guarantees for a branch entry `j` -/
def EntryOK (W : World) (v : Variant) (st : VState) (q : List Nat) (j : Nat) (e : LogEntry) : Prop :=
  W.skipped j = true ∨ ∃ P A, SeenPolicy W st q P ∧ SeenAtt W st q A ∧ W.verifyEntry v P A j e = .ok ()

theorem EntryOK.mono {W : World} {v : Variant} {st st' : VState} {q q' : List Nat} {j : Nat} {e : LogEntry}
    (hq : ∀ k ∈ q', k ∈ q)
    (hp : ∀ P, st'.policy = some P → SeenPolicy W st q P)
    (ha : SeenAtt W st q st'.att)
    (h : EntryOK W v st' q' j e) : EntryOK W v st q j e := by
  rcases h with h | ⟨P, A, hP, hA, hv⟩
  · exact Or.inl h
  · refine Or.inr ⟨P, A, ?_, ?_, hv⟩
    · rcases hP with hP | ⟨k, hk, hl⟩
      · exact hp P hP
      · exact Or.inr ⟨k, hq k hk, hl⟩
    · rcases hA with hA | ⟨k, hk, hl⟩
      · rw [hA]; exact ha
      · exact Or.inr ⟨k, hq k hk, hl⟩

theorem gittuf_prefix_policy : hasPrefix policyRef gittufPrefix = true := by decide
theorem gittuf_prefix_staging : hasPrefix policyStagingRef gittufPrefix = true := by decide
theorem gittuf_prefix_att : hasPrefix attestationsRef gittufPrefix = true := by decide

/-- side conditions under which the loop as coded on the unchanged tree is still sound:
no propagation entry for a branch in the queue (F2), no revoked entry in the queue (F3) -/
def NoBranchProp (W : World) (q : List Nat) : Prop :=
  ∀ j ∈ q, ∀ e, W.log[j]? = some e → e.kind = .prop → hasPrefix e.ref gittufPrefix = true

def NoneSkipped (W : World) (q : List Nat) : Prop := ∀ j ∈ q, W.skipped j = false

/-- **Loop soundness**, for every history, queue, starting state, fuel and variant: if the
verification loop accepts a queue, every entry of the queue for a non-gittuf reference is either
marked skipped or was accepted by `verifyEntry` under a policy state and an attestation state that
were in force during the walk — provided propagation entries are verified (F2 repaired) or the
queue has none for a branch, and the fix entry is verified (F3 repaired) or nothing is revoked. -/
theorem relLoop_sound_gen (W : World) (v : Variant) (first : Nat) :
    ∀ (fuel : Nat) (q : List Nat) (st : VState),
      (v.f2_propagationSkipped = false ∨ NoBranchProp W q) →
      (v.f3_fixNotVerified = false ∨ NoneSkipped W q) →
      W.relLoop v first fuel q st = .ok () →
      ∀ j ∈ q, ∀ e, W.log[j]? = some e → hasPrefix e.ref gittufPrefix = false →
        EntryOK W v st q j e := by
  intro fuel
  induction fuel with
  | zero => intro q st _ _ h; simp [relLoop] at h
  | succ fuel ih =>
    intro q st hf2 hf3 h j hj e he hbranch
    cases q with
    | nil => cases hj
    | cons a rest =>
      unfold relLoop at h
      split at h
      · cases h
      · rename_i ea hea
        -- helper: conclude for members of `rest` from the induction hypothesis on (rest, st')
        have hf2' : v.f2_propagationSkipped = false ∨ NoBranchProp W rest := by
          rcases hf2 with h2 | h2
          · exact Or.inl h2
          · exact Or.inr (fun k hk => h2 k (List.mem_cons_of_mem _ hk))
        have hf3' : v.f3_fixNotVerified = false ∨ NoneSkipped W rest := by
          rcases hf3 with h3 | h3
          · exact Or.inl h3
          · exact Or.inr (fun k hk => h3 k (List.mem_cons_of_mem _ hk))
        have tailCase : ∀ (st' : VState), W.relLoop v first fuel rest st' = .ok () →
            (∀ P, st'.policy = some P → SeenPolicy W st (a :: rest) P) →
            SeenAtt W st (a :: rest) st'.att → j ∈ rest → EntryOK W v st (a :: rest) j e := by
          intro st' h' hp ha hjr
          exact EntryOK.mono (fun k hk => List.mem_cons_of_mem _ hk) hp ha (ih rest st' hf2' hf3' h' j hjr e he hbranch)
        have sameSt : (∀ P, st.policy = some P → SeenPolicy W st (a :: rest) P) := fun P hP => Or.inl hP
        have sameAtt : SeenAtt W st (a :: rest) st.att := Or.inl rfl
        -- `a` itself is a gittuf-namespace entry in the first branches, so `j ≠ a` there
        split at h
        · -- skipped propagation entry (only for gittuf refs when F2 is repaired)
          rename_i hprop
          rcases List.mem_cons.mp hj with hja | hjr
          · subst hja
            rw [hea] at he; cases he
            simp only [Bool.and_eq_true, Bool.or_eq_true, beq_iff_eq] at hprop
            rcases hprop.2 with hp2 | hp2
            · rcases hf2 with h2 | h2
              · rw [h2] at hp2; cases hp2
              · have := h2 j List.mem_cons_self e hea hprop.1
                rw [this] at hbranch; cases hbranch
            · rw [hp2] at hbranch; cases hbranch
          · exact tailCase st h sameSt sameAtt hjr
        · split at h
          · rename_i hstag
            rcases List.mem_cons.mp hj with hja | hjr
            · subst hja
              rw [hea] at he; cases he
              have : e.ref = policyStagingRef := by simpa using hstag
              rw [this, gittuf_prefix_staging] at hbranch; cases hbranch
            · exact tailCase st h sameSt sameAtt hjr
          · split at h
            · rename_i hpol
              have hnotj : j ≠ a := by
                intro hja; subst hja
                rw [hea] at he; cases he
                have : e.ref = policyRef := by simpa using hpol
                rw [this, gittuf_prefix_policy] at hbranch; cases hbranch
              have hjr : j ∈ rest := by
                rcases List.mem_cons.mp hj with hja | hjr
                · exact absurd hja hnotj
                · exact hjr
              split at h
              · exact tailCase st h sameSt sameAtt hjr
              · split at h
                · cases h
                · rename_i newP hnewP
                  have newSeen : ∀ P, (some newP : Option Policy) = some P → SeenPolicy W st (a :: rest) P := by
                    intro P hP; cases hP; exact Or.inr ⟨a, List.mem_cons_self, hnewP⟩
                  split at h
                  · split at h
                    · cases h
                    · split at h
                      · split at h
                        · cases h
                        · exact tailCase { st with policy := some newP } h newSeen sameAtt hjr
                      · exact tailCase { st with policy := some newP } h newSeen sameAtt hjr
                  · split at h
                    · split at h
                      · cases h
                      · exact tailCase { st with policy := some newP } h newSeen sameAtt hjr
                    · exact tailCase { st with policy := some newP } h newSeen sameAtt hjr
            · split at h
              · rename_i hatt
                have hnotj : j ≠ a := by
                  intro hja; subst hja
                  rw [hea] at he; cases he
                  have : e.ref = attestationsRef := by simpa using hatt
                  rw [this, gittuf_prefix_att] at hbranch; cases hbranch
                have hjr : j ∈ rest := by
                  rcases List.mem_cons.mp hj with hja | hjr
                  · exact absurd hja hnotj
                  · exact hjr
                split at h
                · cases h
                · rename_i at' hat'
                  exact tailCase { st with att := some at' } h sameSt (Or.inr ⟨a, List.mem_cons_self, hat'.symm⟩) hjr
              · -- a branch entry: verified, or violation with recovery
                split at h
                · cases h
                · rename_i P hP
                  split at h
                  · -- verified
                    rename_i hver
                    rcases List.mem_cons.mp hj with hja | hjr
                    · subst hja
                      rw [hea] at he; cases he
                      exact Or.inr ⟨P, st.att, Or.inl hP, Or.inl rfl, hver⟩
                    · exact tailCase st h sameSt sameAtt hjr
                  · -- violation
                    rename_i err hverr
                    split at h
                    · cases h
                    · rename_i hskip
                      have hskip' : W.skipped a = true := by simpa using hskip
                      split at h
                      · cases h
                      · split at h
                        · cases h
                        · rename_i lg hlg
                          simp only at h
                          split at h
                          · cases h
                          · rename_i fix bad newQ hfix
                            split at h
                            · cases h
                            · rename_i hbad
                              have hbad' : bad = false := by simpa using hbad
                              subst hbad'
                              have hf3v : v.f3_fixNotVerified = false := by
                                rcases hf3 with h3 | h3
                                · exact h3
                                · have := h3 a List.mem_cons_self
                                  rw [this] at hskip'; cases hskip'
                              simp only [hf3v, Bool.false_eq_true, if_false] at h
                              split at h
                              · cases h
                              · rename_i fe hfe
                                split at h
                                · rename_i hfixver
                                  obtain ⟨_, hpart⟩ := lookForFix_partition W ea.ref _ rest [] false fix newQ hfix
                                  rcases List.mem_cons.mp hj with hja | hjr
                                  · subst hja; exact Or.inl hskip'
                                  · rcases hpart j hjr with hin | hisfix | hnone | ⟨e', he', _, hsk⟩
                                    · -- deferred: processed by the rest of the loop
                                      have hsub : ∀ k ∈ newQ, k ∈ a :: rest := by
                                        intro k hk
                                        have := (lookForFix_partition W ea.ref _ rest [] false fix newQ hfix)
                                        -- members of newQ come from rest
                                        exact List.mem_cons_of_mem _ (lookForFix_sub W ea.ref _ rest [] false fix newQ hfix k hk (by simp))
                                      have hsubr : ∀ k ∈ newQ, k ∈ rest := fun k hk =>
                                        lookForFix_sub W ea.ref _ rest [] false fix newQ hfix k hk (by simp)
                                      have hf2n : v.f2_propagationSkipped = false ∨ NoBranchProp W newQ := by
                                        rcases hf2' with h2 | h2
                                        · exact Or.inl h2
                                        · exact Or.inr (fun k hk => h2 k (hsubr k hk))
                                      have hf3n : v.f3_fixNotVerified = false ∨ NoneSkipped W newQ := Or.inl hf3v
                                      exact EntryOK.mono hsub sameSt sameAtt (ih newQ st hf2n hf3n h j hin e he hbranch)
                                    · subst hisfix
                                      rw [hfe] at he; cases he
                                      exact Or.inr ⟨P, st.att, Or.inl hP, Or.inl rfl, hfixver⟩
                                    · rw [hnone] at he; cases he
                                    · exact Or.inl hsk
                                · cases h

end World
end Gittuf
