import Gittuf.Proofs.Recovery
/-!
C01, "the policy state immediately preceding the entry": an accepted walk verified every entry
under exactly the policy and attestation state recorded last before it in the log (inside the
range; the state the walk started from otherwise) — never an earlier or a later one.  Core Lean only.
-/
namespace Gittuf
namespace World

/-- the largest index below `m` that satisfies `p` -/
def lastBelow (p : Nat → Bool) (m : Nat) : Option Nat := (below m).find? p

theorem lastBelow_step_neg (p : Nat → Bool) (k : Nat) (h : p k = false) :
    lastBelow p (k + 1) = lastBelow p k := by
  unfold lastBelow below
  rw [List.range_succ, List.reverse_append]
  simp only [List.reverse_cons, List.reverse_nil, List.nil_append, List.cons_append]
  rw [List.find?_cons_of_neg]
  simp [h]

theorem lastBelow_step_pos (p : Nat → Bool) (k : Nat) (h : p k = true) :
    lastBelow p (k + 1) = some k := by
  unfold lastBelow below
  rw [List.range_succ, List.reverse_append]
  simp only [List.reverse_cons, List.reverse_nil, List.nil_append, List.cons_append]
  rw [List.find?_cons_of_pos]
  exact h

theorem lastBelow_run (p : Nat → Bool) (a : Nat) :
    ∀ (d : Nat), (∀ k, a ≤ k → k < a + d → p k = false) → lastBelow p (a + d) = lastBelow p a := by
  intro d
  induction d with
  | zero => intro _; rfl
  | succ d ih =>
    intro h
    rw [← Nat.add_assoc, lastBelow_step_neg p (a + d) (h (a + d) (by omega) (by omega))]
    exact ih (fun k h1 h2 => h k h1 (by omega))

theorem lastBelow_run' (p : Nat → Bool) (a b : Nat) (hab : a ≤ b)
    (h : ∀ k, a ≤ k → k < b → p k = false) : lastBelow p b = lastBelow p a := by
  have := lastBelow_run p a (b - a) (fun k h1 h2 => h k h1 (by omega))
  have hb : a + (b - a) = b := by omega
  rw [hb] at this
  exact this

theorem lastBelow_none (p : Nat → Bool) (m : Nat) (h : ∀ k, k < m → p k = false) :
    lastBelow p m = none := by
  have := lastBelow_run' p 0 m (Nat.zero_le _) (fun k _ h2 => h k h2)
  rw [this]
  rfl

/-- `k` is a policy entry the walk started at `first` applies -/
def isPolK (W : World) (first k : Nat) : Bool :=
  match W.log[k]? with
  | some e => e.kind == .ref && e.ref == policyRef && decide (first < k)
  | none => false

/-- `k` is an attestation entry the walk started at `first` applies -/
def isAttK (W : World) (first k : Nat) : Bool :=
  match W.log[k]? with
  | some e => e.kind == .ref && e.ref == attestationsRef && decide (first ≤ k)
  | none => false

/-- every entry recorded for the policy reference is a reference entry (no propagation into it) -/
def PolicyRefOnly (W : World) : Prop :=
  ∀ (j : Nat) (e : LogEntry), W.log[j]? = some e → e.ref = policyRef → isUpdater e = true → e.kind = .ref

/-- the same for the attestations reference -/
def AttRefOnly (W : World) : Prop :=
  ∀ (j : Nat) (e : LogEntry), W.log[j]? = some e → e.ref = attestationsRef → isUpdater e = true → e.kind = .ref

/-- the policy state recorded last before index `m` inside the range, else the state the walk started from -/
def polInForce (W : World) (first : Nat) (p0 : Option Policy) (m : Nat) : Option Policy :=
  match lastBelow (W.isPolK first) m with
  | some k => (match W.loadRaw k with | .ok P => some P | .error _ => none)
  | none => p0

def attInForce (W : World) (first : Nat) (a0 : Option AttState) (m : Nat) : Option AttState :=
  match lastBelow (W.isAttK first) m with
  | some k => W.attAt k
  | none => a0

/-- what an accepted walk guarantees for an entry outside gittuf's namespace, with the exact states -/
def ExactOK (W : World) (v : Variant) (first : Nat) (p0 : Option Policy) (a0 : Option AttState)
    (j : Nat) (e : LogEntry) : Prop :=
  (∃ P, W.polInForce first p0 j = some P ∧ W.verifyEntry v P (W.attInForce first a0 j) j e = .ok ()) ∨
  W.skipped j = true ∨
  (∃ a, a < j ∧ W.skipped a = true ∧
    (v.f3_fixNotVerified = true ∨
      ∃ P, W.polInForce first p0 a = some P ∧ W.verifyEntry v P (W.attInForce first a0 a) j e = .ok ())) ∨
  (v.f2_propagationSkipped = true ∧ e.kind = .prop)

/-- invariant of the walk: the queue is ascending, holds reference updaters only, holds every policy
and attestation entry of `[m, hi]`, starts at or above `m`, and the state is the one in force at `m` -/
structure SInv (W : World) (first hi : Nat) (p0 : Option Policy) (a0 : Option AttState)
    (m : Nat) (q : List Nat) (st : VState) : Prop where
  hfirst : first ≤ m
  sorted : q.Pairwise (· < ·)
  bounds : ∀ k ∈ q, m ≤ k ∧ k ≤ hi
  upd : ∀ k ∈ q, ∀ e, W.log[k]? = some e → e.kind ≠ .ann
  complete : ∀ k, m ≤ k → k ≤ hi → (W.isPolK first k = true ∨ W.isAttK first k = true) → k ∈ q
  pol : st.policy = W.polInForce first p0 m
  att : st.att = W.attInForce first a0 m

theorem SInv.noneBelowHead {W : World} {first hi : Nat} {p0 : Option Policy} {a0 : Option AttState}
    {m a : Nat} {rest : List Nat} {st : VState} (h : SInv W first hi p0 a0 m (a :: rest) st) :
    ∀ k, m ≤ k → k < a → W.isPolK first k = false ∧ W.isAttK first k = false := by
  intro k hk1 hk2
  have hs := List.pairwise_cons.mp h.sorted
  have hahi := (h.bounds a List.mem_cons_self).2
  have hnot : ¬ (W.isPolK first k = true ∨ W.isAttK first k = true) := by
    intro hor
    rcases List.mem_cons.mp (h.complete k hk1 (by omega) hor) with hk | hk
    · omega
    · have := hs.1 k hk; omega
  constructor
  · cases hp : W.isPolK first k with
    | false => rfl
    | true => exact absurd (Or.inl hp) hnot
  · cases hp : W.isAttK first k with
    | false => rfl
    | true => exact absurd (Or.inr hp) hnot

/-- the state in force at the head of the queue is the state in force at `m` -/
theorem SInv.atHead {W : World} {first hi : Nat} {p0 : Option Policy} {a0 : Option AttState}
    {m a : Nat} {rest : List Nat} {st : VState} (h : SInv W first hi p0 a0 m (a :: rest) st) :
    st.policy = W.polInForce first p0 a ∧ st.att = W.attInForce first a0 a := by
  have hma := (h.bounds a List.mem_cons_self).1
  have hn := h.noneBelowHead
  constructor
  · rw [h.pol]; unfold polInForce
    rw [lastBelow_run' (W.isPolK first) m a hma (fun k h1 h2 => (hn k h1 h2).1)]
  · rw [h.att]; unfold attInForce
    rw [lastBelow_run' (W.isAttK first) m a hma (fun k h1 h2 => (hn k h1 h2).2)]

/-- moving past a head that changes neither state -/
theorem SInv.tailSame {W : World} {first hi : Nat} {p0 : Option Policy} {a0 : Option AttState}
    {m a : Nat} {rest : List Nat} {st : VState} (h : SInv W first hi p0 a0 m (a :: rest) st)
    (hp : W.isPolK first a = false) (ha : W.isAttK first a = false) :
    SInv W first hi p0 a0 (a + 1) rest st := by
  have hs := List.pairwise_cons.mp h.sorted
  obtain ⟨h1, h2⟩ := h.atHead
  have hma0 := (h.bounds a List.mem_cons_self).1
  have hf0 := h.hfirst
  refine ⟨by omega, hs.2, ?_, fun k hk => h.upd k (List.mem_cons_of_mem _ hk), ?_, ?_, ?_⟩
  · intro k hk
    have := hs.1 k hk
    exact ⟨by omega, (h.bounds k (List.mem_cons_of_mem _ hk)).2⟩
  · intro k hk1 hk2 hk3
    have hma := (h.bounds a List.mem_cons_self).1
    rcases List.mem_cons.mp (h.complete k (by omega) hk2 hk3) with hk | hk
    · omega
    · exact hk
  · rw [h1]; unfold polInForce; rw [lastBelow_step_neg _ a hp]
  · rw [h2]; unfold attInForce; rw [lastBelow_step_neg _ a ha]

theorem isPolK_false_of_ref {W : World} {first a : Nat} {e : LogEntry} (he : W.log[a]? = some e)
    (h : e.ref ≠ policyRef) : W.isPolK first a = false := by
  have : (e.ref == policyRef) = false := by simpa using h
  simp [isPolK, he, this]

theorem isAttK_false_of_ref {W : World} {first a : Nat} {e : LogEntry} (he : W.log[a]? = some e)
    (h : e.ref ≠ attestationsRef) : W.isAttK first a = false := by
  have : (e.ref == attestationsRef) = false := by simpa using h
  simp [isAttK, he, this]

theorem isPolK_false_of_kind {W : World} {first a : Nat} {e : LogEntry} (he : W.log[a]? = some e)
    (h : e.kind ≠ .ref) : W.isPolK first a = false := by
  have : (e.kind == .ref) = false := by simpa using h
  simp [isPolK, he, this]

theorem isAttK_false_of_kind {W : World} {first a : Nat} {e : LogEntry} (he : W.log[a]? = some e)
    (h : e.kind ≠ .ref) : W.isAttK first a = false := by
  have : (e.kind == .ref) = false := by simpa using h
  simp [isAttK, he, this]

theorem policyRef_ne_att : policyRef ≠ attestationsRef := by decide
theorem staging_ne_policy : policyStagingRef ≠ policyRef := by decide
theorem staging_ne_att : policyStagingRef ≠ attestationsRef := by decide

/-- moving past a policy entry that the walk applies -/
theorem SInv.tailPol {W : World} {first hi : Nat} {p0 : Option Policy} {a0 : Option AttState}
    {m a : Nat} {rest : List Nat} {st : VState} {ea : LogEntry} {newP : Policy}
    (h : SInv W first hi p0 a0 m (a :: rest) st) (hea : W.log[a]? = some ea)
    (hk : ea.kind = .ref) (hr : ea.ref = policyRef) (hne : a ≠ first) (hl : W.loadRaw a = .ok newP) :
    SInv W first hi p0 a0 (a + 1) rest { st with policy := some newP } := by
  have hma := (h.bounds a List.mem_cons_self).1
  have hf0 := h.hfirst
  have hp : W.isPolK first a = true := by
    simp only [isPolK, hea, hk, hr, beq_self_eq_true, Bool.true_and, decide_eq_true_eq]
    omega
  have ha : W.isAttK first a = false := isAttK_false_of_ref hea (hr ▸ policyRef_ne_att)
  have hs := List.pairwise_cons.mp h.sorted
  obtain ⟨_, h2⟩ := h.atHead
  refine ⟨by omega, hs.2, ?_, fun k hk => h.upd k (List.mem_cons_of_mem _ hk), ?_, ?_, ?_⟩
  · intro k hk
    have := hs.1 k hk
    exact ⟨by omega, (h.bounds k (List.mem_cons_of_mem _ hk)).2⟩
  · intro k hk1 hk2 hk3
    rcases List.mem_cons.mp (h.complete k (by omega) hk2 hk3) with hk | hk
    · omega
    · exact hk
  · simp only [polInForce, lastBelow_step_pos _ a hp, hl]
  · show st.att = _
    rw [h2]; unfold attInForce; rw [lastBelow_step_neg _ a ha]

/-- moving past an attestation entry -/
theorem SInv.tailAtt {W : World} {first hi : Nat} {p0 : Option Policy} {a0 : Option AttState}
    {m a : Nat} {rest : List Nat} {st : VState} {ea : LogEntry} {at' : AttState}
    (h : SInv W first hi p0 a0 m (a :: rest) st) (hea : W.log[a]? = some ea)
    (hk : ea.kind = .ref) (hr : ea.ref = attestationsRef) (hl : W.attAt a = some at') :
    SInv W first hi p0 a0 (a + 1) rest { st with att := some at' } := by
  have hma := (h.bounds a List.mem_cons_self).1
  have hf0 := h.hfirst
  have hp : W.isAttK first a = true := by
    simp only [isAttK, hea, hk, hr, beq_self_eq_true, Bool.true_and, decide_eq_true_eq]
    omega
  have ha : W.isPolK first a = false := isPolK_false_of_ref hea (hr ▸ policyRef_ne_att.symm)
  have hs := List.pairwise_cons.mp h.sorted
  obtain ⟨h1, _⟩ := h.atHead
  refine ⟨by omega, hs.2, ?_, fun k hk => h.upd k (List.mem_cons_of_mem _ hk), ?_, ?_, ?_⟩
  · intro k hk
    have := hs.1 k hk
    exact ⟨by omega, (h.bounds k (List.mem_cons_of_mem _ hk)).2⟩
  · intro k hk1 hk2 hk3
    rcases List.mem_cons.mp (h.complete k (by omega) hk2 hk3) with hk | hk
    · omega
    · exact hk
  · show st.policy = _
    rw [h1]; unfold polInForce; rw [lastBelow_step_neg _ a ha]
  · simp only [attInForce, lastBelow_step_pos _ a hp, hl]

theorem kind_ref_of {e : LogEntry} (h1 : e.kind ≠ .ann) (h2 : e.kind ≠ .prop) : e.kind = .ref := by
  cases hk : e.kind with
  | ref => rfl
  | ann => exact absurd hk h1
  | prop => exact absurd hk h2

/-- **The states in force are exactly the ones recorded last before the entry** — for every
history, queue, starting state, fuel and variant: if the verification loop accepts a queue that
satisfies `SInv`, every entry outside gittuf's namespace was accepted by `verifyEntry` under the
policy state and the attestation state recorded last before it (inside the range; the states the
walk started from otherwise), or is revoked, or is the fix of a revoked entry (verified under the
states in force at that entry — unverified with defect F3), or is a propagation entry (defect F2). -/
theorem relLoop_exact_gen (W : World) (v : Variant) (first hi : Nat) (p0 : Option Policy)
    (a0 : Option AttState) :
    ∀ (fuel : Nat) (q : List Nat) (st : VState) (m : Nat),
      SInv W first hi p0 a0 m q st →
      W.relLoop v first fuel q st = .ok () →
      ∀ j ∈ q, ∀ e, W.log[j]? = some e → hasPrefix e.ref gittufPrefix = false →
        ExactOK W v first p0 a0 j e := by
  intro fuel
  induction fuel with
  | zero => intro q st m _ h; simp [relLoop] at h
  | succ fuel ih =>
    intro q st m hinv h j hj e he hbranch
    cases q with
    | nil => cases hj
    | cons a rest =>
      unfold relLoop at h
      split at h
      · cases h
      · rename_i ea hea
        have hann : ea.kind ≠ .ann := hinv.upd a List.mem_cons_self ea hea
        split at h
        · -- propagation entry that the walk skips
          rename_i hprop
          simp only [Bool.and_eq_true, Bool.or_eq_true, beq_iff_eq] at hprop
          have hk : ea.kind ≠ .ref := by rw [hprop.1]; decide
          rcases List.mem_cons.mp hj with hja | hjr
          · subst hja
            rw [hea] at he; cases he
            rcases hprop.2 with h2 | h2
            · exact Or.inr (Or.inr (Or.inr ⟨h2, hprop.1⟩))
            · rw [h2] at hbranch; cases hbranch
          · exact ih rest st _ (hinv.tailSame (isPolK_false_of_kind hea hk) (isAttK_false_of_kind hea hk)) h j hjr e he hbranch
        · rename_i hnprop
          split at h
          · rename_i hstag
            have hsr : ea.ref = policyStagingRef := by simpa using hstag
            rcases List.mem_cons.mp hj with hja | hjr
            · subst hja
              rw [hea] at he; cases he
              rw [hsr, gittuf_prefix_staging] at hbranch; cases hbranch
            · exact ih rest st _ (hinv.tailSame (isPolK_false_of_ref hea (hsr ▸ staging_ne_policy))
                (isAttK_false_of_ref hea (hsr ▸ staging_ne_att))) h j hjr e he hbranch
          · split at h
            · rename_i hpol
              have hpr : ea.ref = policyRef := by simpa using hpol
              have hnotj : j ≠ a := by
                intro hja; subst hja
                rw [hea] at he; cases he
                rw [hpr, gittuf_prefix_policy] at hbranch; cases hbranch
              have hjr : j ∈ rest := by
                rcases List.mem_cons.mp hj with hja | hjr
                · exact absurd hja hnotj
                · exact hjr
              have hkref : ea.kind = .ref := by
                refine kind_ref_of hann ?_
                intro hk
                apply hnprop
                simp [hk, hpr, gittuf_prefix_policy]
              split at h
              · rename_i hfirst
                have haf : a = first := by simpa using hfirst
                have hp : W.isPolK first a = false := by
                  subst haf
                  simp [isPolK, hea]
                exact ih rest st _ (hinv.tailSame hp (isAttK_false_of_ref hea (hpr ▸ policyRef_ne_att))) h j hjr e he hbranch
              · rename_i hnfirst
                have haf : a ≠ first := by simpa using hnfirst
                split at h
                · cases h
                · rename_i newP hnewP
                  have hnext := hinv.tailPol hea hkref hpr haf hnewP
                  split at h
                  · split at h
                    · cases h
                    · split at h
                      · split at h
                        · cases h
                        · exact ih rest _ _ hnext h j hjr e he hbranch
                      · exact ih rest _ _ hnext h j hjr e he hbranch
                  · split at h
                    · split at h
                      · cases h
                      · exact ih rest _ _ hnext h j hjr e he hbranch
                    · exact ih rest _ _ hnext h j hjr e he hbranch
            · rename_i hnpol
              have hnpr : ea.ref ≠ policyRef := by simpa using hnpol
              split at h
              · rename_i hatt
                have har : ea.ref = attestationsRef := by simpa using hatt
                have hnotj : j ≠ a := by
                  intro hja; subst hja
                  rw [hea] at he; cases he
                  rw [har, gittuf_prefix_att] at hbranch; cases hbranch
                have hjr : j ∈ rest := by
                  rcases List.mem_cons.mp hj with hja | hjr
                  · exact absurd hja hnotj
                  · exact hjr
                have hkref : ea.kind = .ref := by
                  refine kind_ref_of hann ?_
                  intro hk
                  apply hnprop
                  simp [hk, har, gittuf_prefix_att]
                split at h
                · cases h
                · rename_i at' hat'
                  exact ih rest _ _ (hinv.tailAtt hea hkref har hat') h j hjr e he hbranch
              · rename_i hnatt
                have hnar : ea.ref ≠ attestationsRef := by simpa using hnatt
                have hpa : W.isPolK first a = false := isPolK_false_of_ref hea hnpr
                have haa : W.isAttK first a = false := isAttK_false_of_ref hea hnar
                obtain ⟨hstP, hstA⟩ := hinv.atHead
                split at h
                · cases h
                · rename_i P hP
                  split at h
                  · rename_i hver
                    rcases List.mem_cons.mp hj with hja | hjr
                    · subst hja
                      rw [hea] at he; cases he
                      refine Or.inl ⟨P, ?_, ?_⟩
                      · rw [← hstP]; exact hP
                      · rw [← hstA]; exact hver
                    · exact ih rest st _ (hinv.tailSame hpa haa) h j hjr e he hbranch
                  · rename_i err hverr
                    split at h
                    · cases h
                    · rename_i hskip
                      have hskip' : W.skipped a = true := by simpa using hskip
                      split at h
                      · cases h
                      · split at h
                        · cases h
                        · rename_i lg hlg
                          simp only at h
                          split at h
                          · cases h
                          · rename_i fix bad newQ hfix
                            split at h
                            · cases h
                            · rename_i hbad
                              have hbad' : bad = false := by simpa using hbad
                              subst hbad'
                              obtain ⟨pre, post, hrest, hnq, hb, hexf, hskf, fe, hfe, htree⟩ :=
                                lookForFix_shape W ea.ref _ rest [] false fix false newQ hfix
                              have hs := List.pairwise_cons.mp hinv.sorted
                              have hfix_rest : fix ∈ rest := by rw [hrest]; simp
                              have ha_fix : a < fix := hs.1 fix hfix_rest
                              have hfref : fe.ref = ea.ref := by
                                simp only [examinedBy, hfe, Bool.and_eq_true, beq_iff_eq] at hexf
                                exact hexf.1
                              have hsub : ∀ k ∈ newQ, k ∈ rest := by
                                intro k hk
                                rw [hnq] at hk
                                rw [hrest]
                                exact (sublist_newQ _ pre post fix).subset hk
                              have hpre_sk : ∀ k ∈ pre, W.examinedBy ea.ref k = true → W.skipped k = true := by
                                intro k hk hex
                                have hany : pre.any (fun k => W.examinedBy ea.ref k && !W.skipped k) = false := by
                                  simpa using hb.symm
                                have := List.any_eq_false.mp hany k hk
                                simpa [hex] using this
                              have hnewSorted : newQ.Pairwise (· < ·) := by
                                rw [hnq]
                                exact List.Pairwise.sublist (sublist_newQ _ pre post fix) (hrest ▸ hs.2)
                              have htail := hinv.tailSame hpa haa
                              have hinvN : SInv W first hi p0 a0 (a + 1) newQ st := by
                                refine ⟨htail.hfirst, hnewSorted, fun k hk => htail.bounds k (hsub k hk),
                                  fun k hk => htail.upd k (hsub k hk), ?_, htail.pol, htail.att⟩
                                intro k hk1 hk2 hk3
                                have hkr := htail.complete k hk1 hk2 hk3
                                rw [hrest] at hkr
                                rw [hnq]
                                simp only [List.nil_append]
                                have hkref : ∃ e', W.log[k]? = some e' ∧ e'.ref ≠ ea.ref := by
                                  rcases hk3 with hk3 | hk3
                                  · unfold isPolK at hk3
                                    split at hk3
                                    · rename_i e' he'
                                      simp only [Bool.and_eq_true, beq_iff_eq] at hk3
                                      exact ⟨e', he', fun hc => hnpr (hc ▸ hk3.1.2)⟩
                                    · cases hk3
                                  · unfold isAttK at hk3
                                    split at hk3
                                    · rename_i e' he'
                                      simp only [Bool.and_eq_true, beq_iff_eq] at hk3
                                      exact ⟨e', he', fun hc => hnar (hc ▸ hk3.1.2)⟩
                                    · cases hk3
                                obtain ⟨e', he', hne'⟩ := hkref
                                rcases List.mem_append.mp hkr with hk | hk
                                · refine List.mem_append_left _ (List.mem_filter.mpr ⟨hk, ?_⟩)
                                  have : (e'.ref != ea.ref) = true := by simpa using hne'
                                  simp [deferredBy, he', this]
                                · rcases List.mem_cons.mp hk with hk | hk
                                  · subst hk
                                    rw [hfe] at he'; cases he'
                                    exact absurd hfref hne'
                                  · exact List.mem_append_right _ hk
                              have cont : W.relLoop v first fuel newQ st = .ok () →
                                  (v.f3_fixNotVerified = true ∨ W.verifyEntry v P st.att fix fe = .ok ()) →
                                  ExactOK W v first p0 a0 j e := by
                                intro hloop hfixinfo
                                rcases List.mem_cons.mp hj with hja | hjr
                                · subst hja
                                  exact Or.inr (Or.inl hskip')
                                · rw [hrest] at hjr
                                  rcases List.mem_append.mp hjr with hjp | hjp
                                  · cases hd : W.deferredBy ea.ref j with
                                    | true =>
                                      have hjn : j ∈ newQ := by
                                        rw [hnq]; simp only [List.nil_append]
                                        exact List.mem_append_left _ (List.mem_filter.mpr ⟨hjp, hd⟩)
                                      exact ih newQ st _ hinvN hloop j hjn e he hbranch
                                    | false =>
                                      have hex : W.examinedBy ea.ref j = true := by
                                        simp only [deferredBy, he, Bool.or_eq_false_iff] at hd
                                        have h1 : (e.ref == ea.ref) = true := by simpa using hd.1
                                        have h2 : (e.kind != .prop) = true := by simpa using hd.2
                                        simp [examinedBy, he, h1, h2]
                                      exact Or.inr (Or.inl (hpre_sk j hjp hex))
                                  · rcases List.mem_cons.mp hjp with hjf | hjpost
                                    · subst hjf
                                      rw [hfe] at he; cases he
                                      refine Or.inr (Or.inr (Or.inl ⟨a, ha_fix, hskip', ?_⟩))
                                      rcases hfixinfo with hf3 | hfv
                                      · exact Or.inl hf3
                                      · refine Or.inr ⟨P, ?_, ?_⟩
                                        · rw [← hstP]; exact hP
                                        · rw [← hstA]; exact hfv
                                    · have hjn : j ∈ newQ := by
                                        rw [hnq]; exact List.mem_append_right _ hjpost
                                      exact ih newQ st _ hinvN hloop j hjn e he hbranch
                              split at h
                              · rename_i hf3
                                exact cont h (Or.inl hf3)
                              · split at h
                                · cases h
                                · rename_i fe2 hfe2
                                  rw [hfe] at hfe2; cases hfe2
                                  split at h
                                  · rename_i hfixver
                                    exact cont h (Or.inr hfixver)
                                  · cases h

end World
end Gittuf
