import Gittuf.Spec.C06
/-
Helper lemmas for C06 (walk of the delegation graph).
-/
namespace Gittuf.Walk

theorem unseenW_nil (w : String × RuleFile → Nat) (seen : List String) : unseenW w seen [] = 0 := rfl

theorem unseenW_cons (w : String × RuleFile → Nat) (seen : List String) (e : String × RuleFile)
    (tl : List (String × RuleFile)) :
    unseenW w seen (e :: tl) = (if seen.contains e.1 then 0 else w e) + unseenW w seen tl := by
  unfold unseenW
  by_cases h : e.1 ∈ seen
  · simp [h]
  · simp [h]

theorem unseenW_mono (w : String × RuleFile → Nat) (seen : List String) (n : String)
    (files : List (String × RuleFile)) : unseenW w (n :: seen) files ≤ unseenW w seen files := by
  induction files with
  | nil => simp [unseenW_nil]
  | cons e tl ih =>
    rw [unseenW_cons, unseenW_cons]
    by_cases h : seen.contains e.1 = true
    · have : (n :: seen).contains e.1 = true := by
        simp only [List.contains_cons, h, Bool.or_true]
      simp only [this, h, if_true]; omega
    · by_cases h2 : (n :: seen).contains e.1 = true
      · simp only [h2, h, if_true]; omega
      · simp only [h2, h]; omega

/-- entering the file found under a not yet seen name removes at least its weight -/
theorem unseenW_enter (w : String × RuleFile → Nat) (seen : List String) (n : String) (G : RuleFile)
    (files : List (String × RuleFile)) (hn : seen.contains n = false) (hl : files.lookup n = some G) :
    unseenW w (n :: seen) files + w (n, G) ≤ unseenW w seen files := by
  induction files with
  | nil => simp [List.lookup] at hl
  | cons e tl ih =>
    obtain ⟨k, F⟩ := e
    rw [unseenW_cons, unseenW_cons]
    by_cases hk : n = k
    · subst hk
      have hG : F = G := by simpa [List.lookup] using hl
      subst hG
      have h1 : (n :: seen).contains n = true := by simp
      have := unseenW_mono w seen n tl
      simp only [h1, hn, if_true]
      simp only [Bool.false_eq_true, if_false]
      omega
    · have hl' : tl.lookup n = some G := by
        have : (n == k) = false := by simpa using hk
        simpa [List.lookup, this] using hl
      have h1 : (n :: seen).contains k = seen.contains k := by
        have hkn : ¬ k = n := fun h => hk h.symm
        simp [hkn]
      have := ih hl'
      rw [h1]
      split <;> omega

end Gittuf.Walk
