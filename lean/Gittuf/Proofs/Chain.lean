import Gittuf.Props.C05
import Gittuf.Spec.C02
namespace Gittuf

theorem nodup_subset_length {α} [DecidableEq α] (l m : List α) (hn : l.Nodup)
    (hs : ∀ x ∈ l, x ∈ m) : l.length ≤ m.length := by
  induction l generalizing m with
  | nil => simp
  | cons a l ih =>
    have ha : a ∈ m := hs a List.mem_cons_self
    have hn' := List.nodup_cons.mp hn
    have : l.length ≤ (m.erase a).length := by
      apply ih _ hn'.2
      intro x hx
      have hxa : x ≠ a := fun h => hn'.1 (h ▸ hx)
      exact (List.mem_erase_of_ne hxa).mpr (hs x (List.mem_cons_of_mem _ hx))
    rw [List.length_erase_of_mem ha] at this
    have hpos : 0 < m.length := List.length_pos_of_mem ha
    simp only [List.length_cons]
    omega

theorem nodup_map_of_injOn {α β} (f : α → β) (l : List α) (h : l.Nodup)
    (hi : ∀ a ∈ l, ∀ b ∈ l, f a = f b → a = b) : (l.map f).Nodup := by
  induction l with
  | nil => simp
  | cons a l ih =>
    have hn := List.nodup_cons.mp h
    simp only [List.map_cons, List.nodup_cons]
    refine ⟨?_, ih hn.2 (fun x hx y hy => hi x (List.mem_cons_of_mem _ hx) y (List.mem_cons_of_mem _ hy))⟩
    intro hm
    simp only [List.mem_map] at hm
    obtain ⟨b, hb, hfb⟩ := hm
    have := hi b (List.mem_cons_of_mem _ hb) a List.mem_cons_self hfb
    exact hn.1 (this ▸ hb)

/-- A verifier whose principals are bare keys accepts an envelope signed by `signers` only if
at least `threshold` distinct keys of the role signed. -/
theorem keyVerifier_sound (keys signers : List KeyId) (t : Int) (S : List PId)
    (h : Verifier.verify { principals := keys.map (fun k => (keyPrincipal k).toPrincipal), threshold := t }
          none 0 (some (envelopeOf signers)) = .ok S) :
    thresholdMet t (keysCount signers keys) = true := by
  obtain ⟨h1, _, h3, hnd, f, pg, hcred, hinj⟩ := C05_sound _ _ _ _ _ rfl h
  -- the keys credited to the members of S are distinct keys of the role that signed
  have hmem : ∀ p ∈ S, f p ∈ (keys.eraseDups.filter (fun k => signers.contains k)) := by
    intro p hp
    obtain ⟨P, hP, _, hk, hval⟩ := hcred p hp
    simp only [List.mem_map] at hP
    obtain ⟨k, hkk, hPk⟩ := hP
    subst hPk
    simp only [keyPrincipal, PrincipalSpec.toPrincipal, List.mem_singleton] at hk
    rcases hval with ⟨_, s, hs, _⟩ | ⟨e, s, he, hs, hok⟩
    · cases hs
    · simp only [Option.some.injEq] at he
      subst he
      simp only [envelopeOf, List.mem_map] at hs
      obtain ⟨k', hk', hsk⟩ := hs
      subst hsk
      simp only [Sig.okFor, Bool.and_eq_true, beq_iff_eq] at hok
      have : k' = f p := hok.1.1
      rw [List.mem_filter]
      refine ⟨?_, ?_⟩
      · rw [List.mem_eraseDups]; rw [hk]; exact hkk
      · simp only [List.contains_eq_mem, decide_eq_true_eq]; rw [← this]; exact hk'
  have hlen : S.length ≤ (keys.eraseDups.filter (fun k => signers.contains k)).length := by
    have hnd' : (S.map f).Nodup := nodup_map_of_injOn f S hnd hinj
    have hsub : ∀ x ∈ S.map f, x ∈ keys.eraseDups.filter (fun k => signers.contains k) := by
      intro x hx
      simp only [List.mem_map] at hx
      obtain ⟨p, hp, rfl⟩ := hx
      exact hmem p hp
    have := nodup_subset_length (S.map f) (keys.eraseDups.filter (fun k => signers.contains k)) hnd' hsub
    simpa using this
  unfold thresholdMet keysCount
  simp only [Bool.and_eq_true, decide_eq_true_eq]
  have h3' : t ≤ (S.length : Int) := h3
  have h1' : 1 ≤ t := h1
  exact ⟨h1', by omega⟩

end Gittuf
