/-
Lemmas about the storage-call model: every call other than a raw write of the log
reference extends the store (objects only added, old log tip reachable from the new one).
-/
import Gittuf.Spec.C17
namespace Gittuf.Script

/-- raw (unconditional) writes of the log reference; the recording operations never issue them. -/
def Call.rawRsl : Call → Bool
  | .setRef .rsl _ => true
  | .delRef .rsl => true
  | .reset .rsl _ => true
  | _ => false

/-- a program that moves the log reference only through Commit / compare-and-set. -/
inductive Disciplined : Prog → Prop
  | ret (r : Res) : Disciplined (.ret r)
  | call (c : Call) (k : Resp → Prog) : c.rawRsl = false → (∀ resp, Disciplined (k resp)) → Disciplined (.call c k)

/-- `b` is the first parent of `a`. -/
def Store.parentOf (s : Store) (a b : Cid) : Prop :=
  ∃ cm, s.commit? a = some cm ∧ cm.parents.head? = some b

/-- `b` is reachable from `a` along first parents. -/
inductive Reach (s : Store) : Cid → Cid → Prop
  | refl (a : Cid) : Reach s a a
  | step {a b c : Cid} : s.parentOf a b → Reach s b c → Reach s a c

theorem Reach.trans {s : Store} {a b c : Cid} (h1 : Reach s a b) (h2 : Reach s b c) : Reach s a c := by
  induction h1 with
  | refl => exact h2
  | step p _ ih => exact .step p (ih h2)

theorem prefix_getElem? {α} {l l' : List α} (h : l <+: l') {i : Nat} {x : α} (hx : l[i]? = some x) : l'[i]? = some x := by
  obtain ⟨t, rfl⟩ := h
  have hi : i < l.length := by
    rcases List.getElem?_eq_some_iff.mp hx with ⟨hi, _⟩
    exact hi
  rw [List.getElem?_append_left hi]; exact hx

theorem Reach.mono {s s' : Store} (h : s.commits <+: s'.commits) {a b : Cid} (r : Reach s a b) : Reach s' a b := by
  induction r with
  | refl => exact .refl _
  | step p _ ih =>
    obtain ⟨cm, hc, hp⟩ := p
    exact .step ⟨cm, prefix_getElem? h hc, hp⟩ ih

/-- `s'` extends `s`. -/
structure Ext (s s' : Store) : Prop where
  objs : s.commits <+: s'.commits
  tip : ∀ t, s.get .rsl = some t → ∃ t', s'.get .rsl = some t' ∧ Reach s' t' t
  single : (∀ c ∈ s.commits, c.parents.length ≤ 1) → ∀ c ∈ s'.commits, c.parents.length ≤ 1

theorem Ext.refl (s : Store) : Ext s s :=
  ⟨List.prefix_refl _, fun t h => ⟨t, h, .refl _⟩, fun h => h⟩

theorem Ext.trans {a b c : Store} (h1 : Ext a b) (h2 : Ext b c) : Ext a c := by
  refine ⟨h1.objs.trans h2.objs, ?_, fun h => h2.single (h1.single h)⟩
  intro t ht
  obtain ⟨t', ht', r1⟩ := h1.tip t ht
  obtain ⟨t'', ht'', r2⟩ := h2.tip t' ht'
  exact ⟨t'', ht'', r2.trans (r1.mono h2.objs)⟩

theorem lookup_filter_ne (l : List (Ref × Cid)) {r r' : Ref} (h : r ≠ r') :
    (l.filter (fun x => x.1 != r')).lookup r = l.lookup r := by
  induction l with
  | nil => rfl
  | cons x xs ih =>
    obtain ⟨k, v⟩ := x
    by_cases hk : k = r'
    · subst hk
      have : (r == k) = false := by simpa using h
      simp [List.filter, List.lookup, this, ih]
    · have hk' : (k != r') = true := by simpa using hk
      simp only [List.filter, hk', List.lookup]
      cases hrk : (r == k) <;> simp [ih]

theorem get_set_eq (s : Store) (r : Ref) (c : Cid) : (s.set r c).get r = some c := by
  simp [Store.set, Store.get, List.lookup]

theorem get_set_ne (s : Store) {r r' : Ref} (c : Cid) (h : r ≠ r') : (s.set r' c).get r = s.get r := by
  have : (r == r') = false := by simpa using h
  simp [Store.set, Store.get, List.lookup, this, lookup_filter_ne _ h]

theorem get_del_ne (s : Store) {r r' : Ref} (h : r ≠ r') : (s.del r').get r = s.get r := by
  simp [Store.del, Store.get, lookup_filter_ne _ h]

/-- refs-only changes that leave the log reference alone extend the store. -/
theorem Ext.of_refs {s s' : Store} (hc : s'.commits = s.commits) (hr : s'.get .rsl = s.get .rsl) : Ext s s' :=
  ⟨by rw [hc]; exact List.prefix_refl _, fun t h => ⟨t, by rw [hr]; exact h, .refl _⟩, fun h => by rw [hc]; exact h⟩

/-- creating an object and (maybe) moving `r` to it by compare-and-set against `old`. -/
theorem Ext.of_commit (s : Store) (r : Ref) (cm : Commit) (hp : cm.parents = (s.get r).toList) :
    Ext s ((s.add cm).1.set r (s.add cm).2) := by
  refine ⟨⟨[cm], rfl⟩, ?_, ?_⟩
  · intro t ht
    by_cases hr : r = .rsl
    · subst hr
      refine ⟨s.commits.length, get_set_eq _ _ _, ?_⟩
      refine .step ⟨cm, ?_, ?_⟩ (.refl _)
      · simp [Store.commit?, Store.set, Store.add]
      · rw [hp, ht]; rfl
    · refine ⟨t, ?_, .refl _⟩
      rw [get_set_ne _ _ (fun h => hr h.symm)]
      exact ht
  · intro h c hc
    simp only [Store.set, Store.add, List.mem_append, List.mem_singleton] at hc
    rcases hc with hc | hc
    · exact h c hc
    · subst hc; rw [hp]; cases s.get r <;> simp

theorem Ext.of_add (s : Store) (cm : Commit) (h1 : cm.parents.length ≤ 1) : Ext s (s.add cm).1 := by
  refine ⟨⟨[cm], rfl⟩, fun t ht => ⟨t, ht, .refl _⟩, ?_⟩
  intro h c hc
  simp only [Store.add, List.mem_append, List.mem_singleton] at hc
  rcases hc with hc | hc
  · exact h c hc
  · subst hc; exact h1

/-- every call except a raw write of the log reference extends the store. -/
theorem exec_ext (s : Store) (o : Nat) (c : Call) (h : c.rawRsl = false) : Ext s (exec s o c).1 := by
  cases c with
  | getRef r => exact Ext.refl _
  | setRef r c =>
    have hr : Ref.rsl ≠ r := by intro e; subst e; simp [Call.rawRsl] at h
    exact Ext.of_refs rfl (get_set_ne _ _ hr)
  | delRef r =>
    have hr : Ref.rsl ≠ r := by intro e; subst e; simp [Call.rawRsl] at h
    exact Ext.of_refs rfl (get_del_ne _ hr)
  | getMsg c => simp only [exec]; split <;> exact Ext.refl _
  | emptyTree => exact Ext.refl _
  | writeBlob => exact Ext.refl _
  | writeTree => exact Ext.refl _
  | commit r p => exact Ext.of_commit s r _ rfl
  | commitRead r => exact Ext.refl _
  | commitCas r p old =>
    simp only [exec]
    split
    · rename_i heq
      exact Ext.of_commit s r _ (by rw [heq])
    · exact Ext.of_add s _ (by cases old <;> simp)
  | reset r c =>
    have hr : Ref.rsl ≠ r := by intro e; subst e; simp [Call.rawRsl] at h
    exact Ext.of_refs rfl (get_set_ne _ _ hr)
  | knows a b => exact Ext.refl _
  | lookup r => exact Ext.refl _
  | loadVerify => exact Ext.refl _
  | loadState c => exact Ext.refl _

theorem Thread.step_ext (t : Thread) (s : Store) (h : Disciplined t.prog) :
    Ext s (t.step s).1 ∧ Disciplined (t.step s).2.prog := by
  unfold Thread.step
  cases hp : t.prog with
  | ret r => simp only []; exact ⟨Ext.refl _, by rw [hp] at h; simpa [hp] using h⟩
  | call c k =>
    rw [hp] at h
    cases h with
    | call _ _ hc hk =>
      simp only []
      exact ⟨exec_ext s t.owner c hc, hk _⟩

theorem stepAt_ext (ts : List Thread) (i : Nat) (s : Store) (h : ∀ t ∈ ts, Disciplined t.prog) :
    Ext s (stepAt ts i s).1 ∧ ∀ t ∈ (stepAt ts i s).2, Disciplined t.prog := by
  induction ts generalizing i with
  | nil => exact ⟨Ext.refl _, by simp [stepAt]⟩
  | cons t ts ih =>
    cases i with
    | zero =>
      have := Thread.step_ext t s (h t (by simp))
      simp only [stepAt]
      refine ⟨this.1, ?_⟩
      intro u hu
      simp only [List.mem_cons] at hu
      rcases hu with hu | hu
      · subst hu; exact this.2
      · exact h u (by simp [hu])
    | succ i =>
      have := ih i (fun u hu => h u (by simp [hu]))
      simp only [stepAt]
      refine ⟨this.1, ?_⟩
      intro u hu
      simp only [List.mem_cons] at hu
      rcases hu with hu | hu
      · subst hu; exact h _ (by simp)
      · exact this.2 u hu

theorem run_ext (g : Global) (sched : List Nat) (h : ∀ t ∈ g.threads, Disciplined t.prog) :
    Ext g.store (g.run sched).store ∧ ∀ t ∈ (g.run sched).threads, Disciplined t.prog := by
  induction sched generalizing g with
  | nil => exact ⟨Ext.refl _, h⟩
  | cons tid rest ih =>
    have h1 := stepAt_ext g.threads tid g.store h
    have h2 := ih (g.step tid) h1.2
    exact ⟨h1.1.trans h2.1, h2.2⟩

end Gittuf.Script
