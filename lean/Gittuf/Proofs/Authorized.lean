import Gittuf.Proofs.Entry
import Gittuf.Proofs.Chain
namespace Gittuf
namespace World

/-- soundness of the code-review approver collection: every approver identity handed to the verifiers
was named by an approval that is stored under the key of the change, belongs to a trusted app and
carries a valid signature by that app's key; with F7 repaired its signed statement names exactly the change -/
def ApproverOK (v : Variant) (P : Policy) (A : AttState) (ref : String) (frm : Option Nat) (to : Nat)
    (x : String) : Prop :=
  ∃ app ∈ P.root.apps, app.trusted = true ∧ ∃ g ∈ A.gh, g.app = app.name ∧
    g.sref = ref ∧ g.sfrom = frm ∧ g.sto = to ∧ app.key ∈ g.signers ∧ x ∈ g.approvers ∧
    (v.f7_ghPredicateNotValidated = false → g.ref = ref ∧ g.frm = frm ∧ g.to = to)

theorem appVerifier_signed (k : KeyId) (signers : List KeyId) (S : List PId)
    (h : Verifier.verify { principals := [(keyPrincipal k).toPrincipal], threshold := 1 } none 0
          (some (envelopeOf signers)) = .ok S) : k ∈ signers := by
  have := keyVerifier_sound [k] signers 1 S (by simpa using h)
  unfold thresholdMet keysCount at this
  simp only [Bool.and_eq_true, decide_eq_true_eq] at this
  have hpos : 0 < (([k].eraseDups).filter (fun k => signers.contains k)).length := by
    have := this.2; omega
  obtain ⟨x, hx⟩ := List.exists_mem_of_length_pos hpos
  simp only [List.mem_filter, List.mem_eraseDups, List.mem_singleton, List.contains_eq_mem,
    decide_eq_true_eq] at hx
  exact hx.1 ▸ hx.2

theorem ghApprovers_sound (v : Variant) (P : Policy) (A : AttState) (ref : String) (frm : Option Nat)
    (to : Nat) (as : List String) (h : ghApprovers v P A ref frm to = .ok as) :
    ∀ x ∈ as, ApproverOK v P A ref frm to x := by
  unfold ghApprovers at h
  -- generalise over the list of apps and the accumulator
  have gen : ∀ (apps : List App) (acc out : List String),
      (∀ a ∈ apps, a ∈ P.root.apps ∧ a.trusted = true) →
      (∀ x ∈ acc, ApproverOK v P A ref frm to x) →
      apps.foldlM (init := acc) (fun acc app =>
        match A.gh.reverse.find? (fun g => g.app == app.name && g.sref == ref && g.sfrom == frm && g.sto == to) with
        | none => pure acc
        | some g =>
          let av : Verifier := { principals := [(keyPrincipal app.key).toPrincipal], threshold := 1 }
          match av.verify none 0 (some (envelopeOf g.signers)) with
          | .error _ => (.error .verif : Except VE (List String))
          | .ok _ =>
            if !v.f7_ghPredicateNotValidated && !(g.ref == ref && g.frm == frm && g.to == to) then .error .other
            else pure (acc ++ g.approvers.filter (fun a => !acc.contains a))) = .ok out →
      ∀ x ∈ out, ApproverOK v P A ref frm to x := by
    intro apps
    induction apps with
    | nil =>
      intro acc out _ hacc hfold
      simp only [List.foldlM_nil, pure, Except.pure, Except.ok.injEq] at hfold
      subst hfold; exact hacc
    | cons app rest ih =>
      intro acc out happs hacc hfold
      simp only [List.foldlM_cons, bind, Except.bind] at hfold
      split at hfold
      · cases hfold
      · rename_i acc' hstep
        refine ih acc' out (fun a ha => happs a (List.mem_cons_of_mem _ ha)) ?_ hfold
        split at hstep
        · simp only [pure, Except.pure, Except.ok.injEq] at hstep
          subst hstep; exact hacc
        · rename_i g hg
          have hgm := List.mem_of_find?_eq_some hg
          have hgp := List.find?_some (p := fun (g : GhApproval) => g.app == app.name && g.sref == ref && g.sfrom == frm && g.sto == to) hg
          simp only [Bool.and_eq_true, beq_iff_eq] at hgp
          split at hstep
          · cases hstep
          · rename_i S hS
            split at hstep
            · cases hstep
            · rename_i hcond
              simp only [pure, Except.pure, Except.ok.injEq] at hstep
              subst hstep
              intro x hx
              rcases List.mem_append.mp hx with hx | hx
              · exact hacc x hx
              · have hxg : x ∈ g.approvers := (List.mem_filter.mp hx).1
                obtain ⟨happ, htr⟩ := happs app List.mem_cons_self
                refine ⟨app, happ, htr, g, List.mem_reverse.mp hgm, hgp.1.1.1, hgp.1.1.2, hgp.1.2, hgp.2,
                  appVerifier_signed _ _ S hS, hxg, ?_⟩
                intro hf7
                simp only [hf7, Bool.not_false, Bool.true_and, Bool.not_eq_true', Bool.not_eq_false] at hcond
                simp only [Bool.and_eq_true, beq_iff_eq] at hcond
                exact ⟨hcond.1.1, hcond.1.2, hcond.2⟩
  exact gen _ [] as (fun a ha => by
    have := List.mem_filter.mp ha
    exact ⟨this.1, by simpa using this.2⟩) (by intro x hx; cases hx) h

end World
end Gittuf

namespace Gittuf
namespace World

theorem find?_id_unique (defs : List PrincipalSpec) (hnd : (defs.map (·.id)).Nodup)
    (d : PrincipalSpec) (hd : d ∈ defs) : defs.find? (fun x => x.id == d.id) = some d := by
  induction defs with
  | nil => cases hd
  | cons a rest ih =>
    simp only [List.map_cons, List.nodup_cons] at hnd
    rcases List.mem_cons.mp hd with h | h
    · subst h; simp
    · have hne : a.id ≠ d.id := by
        intro heq
        exact hnd.1 (heq ▸ List.mem_map_of_mem h)
      have : (a.id == d.id) = false := by simpa using hne
      simp only [List.find?_cons, this]
      exact ih hnd.2 h

theorem principal_of_id (ps : List Principal) (hnd : (ps.map (·.id)).Nodup) (P Q : Principal)
    (hP : P ∈ ps) (hQ : Q ∈ ps) (h : P.id = Q.id) : P = Q := by
  induction ps with
  | nil => cases hP
  | cons a rest ih =>
    simp only [List.map_cons, List.nodup_cons] at hnd
    rcases List.mem_cons.mp hP with h1 | h1 <;> rcases List.mem_cons.mp hQ with h2 | h2
    · rw [h1, h2]
    · subst h1; exact absurd (h ▸ List.mem_map_of_mem h2) hnd.1
    · subst h2; exact absurd (h.symm ▸ List.mem_map_of_mem h1) hnd.1
    · exact ih hnd.2 h1 h2

/-- side conditions on the policy under which the declarative counting predicate of Spec/C01 and the
verifier's bookkeeping talk about the same principals: principal ids are unique in the policy, the
verifier's principals are distinct and carry the keys the policy defines for them, and all trusted
code-review apps share one name (at most one trusted app) -/
structure WellDefined (P : Policy) (vn : VerifierN) : Prop where
  idsNodup : (P.allPrincipals.map (·.id)).Nodup
  principalIds : (vn.v.principals.map (·.id)).Nodup
  consistent : ∀ p ∈ vn.v.principals, ∃ d ∈ P.allPrincipals, d.id = p.id ∧ d.keys = p.keys
  oneApp : ∀ a ∈ P.root.apps, ∀ b ∈ P.root.apps, a.trusted = true → b.trusted = true → a.name = b.name

/-- **From the verifier's bookkeeping to the declarative count** (F7 repaired): if a rule is met in
the sense of `RuleMet` with the approvals looked up for the change (ref, frm, tree), then at least
`threshold` principals of the rule *contributed* to exactly that change in the sense of Spec/C01
(`contributed`: own signature on the entry, signature on the authorization whose signed statement
names the change, or named by a trusted app's approval whose signed statement names the change). -/
theorem ruleMet_count (v : Variant) (hf7 : v.f7_ghPredicateNotValidated = false) (P : Policy)
    (At : AttState) (ref : String) (frm : Option Nat) (tree : Nat) (signer : Option KeyId) (ap : Approvals)
    (hap : approvalsFor v P (some At) ref frm tree = .ok ap) (vn : VerifierN) (hwd : WellDefined P vn)
    (acc : List PId)
    (hmet : RuleMet P.allPrincipals ((P.root.apps.filter (·.trusted)).map (·.name)) ap.approvers vn
      (sigOf signer) ap.auth acc) :
    vn.v.threshold ≤ ((vn.v.principals.filter (fun p =>
      match P.allPrincipals.find? (fun d => d.id == p.id) with
      | some d => contributed P (some At) ref frm tree signer d
      | none => false)).length : Int) := by
  obtain ⟨_, hthr, hnd, hmem, used, hcred, hsrc⟩ := hmet
  -- unpack the approvals
  have hauth : authFor At ref frm tree = .ok ap.auth := C09_approvals_auth v P At ref frm tree ap hap
  have happr : ∃ as, ap.approvers = some as ∧ ghApprovers v P At ref frm tree = .ok as := by
    unfold approvalsFor at hap
    simp only at hap
    split at hap
    · cases hap
    · split at hap
      · cases hap
      · rename_i as has
        cases hap
        exact ⟨as, rfl, has⟩
  obtain ⟨as, has, hgh⟩ := happr
  -- every accepted principal contributed
  have hall : ∀ p ∈ acc, p ∈ (vn.v.principals.filter (fun p =>
      match P.allPrincipals.find? (fun d => d.id == p.id) with
      | some d => contributed P (some At) ref frm tree signer d
      | none => false)).map (·.id) := by
    intro p hp
    obtain ⟨Pr, hPr, hid⟩ := hmem p hp
    obtain ⟨d, hd, hdid, hdkeys⟩ := hwd.consistent Pr hPr
    have hfind : P.allPrincipals.find? (fun x => x.id == Pr.id) = some d := by
      rw [← hdid]; exact find?_id_unique _ hwd.idsNodup d hd
    refine List.mem_map.mpr ⟨Pr, List.mem_filter.mpr ⟨hPr, ?_⟩, hid⟩
    simp only [hfind]
    unfold contributed
    rcases hsrc p hp with hu | hm
    · -- credited through a signature
      obtain ⟨_, f, pg, hc, _⟩ := hcred
      obtain ⟨Pr', hPr', hid', hk, hval⟩ := hc p hu
      have : Pr' = Pr := principal_of_id _ hwd.principalIds Pr' Pr hPr' hPr (hid'.trans hid.symm)
      subst this
      rcases hval with ⟨_, s, hs, hok⟩ | ⟨e, s, he, hs, hok⟩
      · -- the entry's own signature
        cases signer with
        | none => simp [sigOf] at hs
        | some k =>
          simp only [sigOf, Option.map_some, Option.some.injEq] at hs
          subst hs
          simp only [Sig.okFor, Bool.and_eq_true, beq_iff_eq] at hok
          have hkk : k = f p := hok.1.1
          simp only [Bool.or_eq_true]
          left
          rw [hdkeys, hkk]; simpa using hk
      · -- a signature on the authorization
        rw [he] at hauth
        obtain ⟨a, ha, h1, h2, h3, h4, h5, h6, henv⟩ := C09_auth_exact At ref frm tree e hauth
        subst henv
        simp only [envelopeOf, List.mem_map] at hs
        obtain ⟨k', hk', hsk⟩ := hs
        subst hsk
        simp only [Sig.okFor, Bool.and_eq_true, beq_iff_eq] at hok
        have hkk : k' = f p := hok.1.1
        simp only [Bool.or_eq_true]
        right; left
        simp only [List.any_eq_true, Bool.and_eq_true, beq_iff_eq]
        refine ⟨a, ha, ⟨⟨⟨⟨⟨⟨h4, h5⟩, h6⟩, h1⟩, h2⟩, h3⟩, ?_⟩⟩
        exact ⟨k', hk', by rw [hdkeys, hkk]; simpa using hk⟩
    · -- matched to a code-review approver
      obtain ⟨as', has', d', hd', hd'id, hper, a, ha, appName, happName, hident⟩ := hm
      rw [has] at has'
      cases has'
      have hdd : d' = d := by
        have h1 := find?_id_unique _ hwd.idsNodup d' hd'
        have h2 := find?_id_unique _ hwd.idsNodup d hd
        rw [hd'id, ← hid, ← hdid] at h1
        rw [h1] at h2
        exact Option.some.inj h2
      subst hdd
      obtain ⟨app, happ, htr, g, hg, hgapp, hs1, hs2, hs3, hkey, hga, hexact⟩ := ghApprovers_sound v P At ref frm tree as hgh a ha
      obtain ⟨he1, he2, he3⟩ := hexact hf7
      -- the app the identity was registered for is the (single) trusted app
      have hname : appName = app.name := by
        simp only [List.mem_map, List.mem_filter] at happName
        obtain ⟨app2, ⟨happ2, htr2⟩, hn2⟩ := happName
        rw [← hn2]
        exact hwd.oneApp app2 happ2 app happ (by simpa using htr2) htr
      subst hname
      simp only [Bool.or_eq_true]
      right; right
      simp only [List.any_eq_true, Bool.and_eq_true, beq_iff_eq, List.contains_eq_mem, decide_eq_true_eq]
      refine ⟨g, hg, ⟨⟨⟨he1, he2⟩, he3⟩, app, happ, ⟨⟨⟨⟨htr, hgapp.symm⟩, hkey⟩, hper⟩, ⟨(app.name, a), hident, rfl, hga⟩⟩⟩⟩
  have hlen := nodup_subset_length acc _ hnd hall
  simp only [List.length_map] at hlen
  omega

end World
end Gittuf
