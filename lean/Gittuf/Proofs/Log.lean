import Gittuf.Spec.C04
import Gittuf.Spec.C03
/-
Helper lemmas for C03 / C04 (core Lean only).
-/
namespace Gittuf.RSL

/-! ## The walk over the store as a walk over a list -/

/-- `Steps s x l e`: stepping to the parent repeatedly from `x` meets exactly the entries
`l`, and the step after the last one fails with `e` (`.notFound` at the first entry of the
log; `.branch` / `.invalid` where the chain has been tampered with). -/
inductive Steps (s : Store) : LEntry → List LEntry → RErr → Prop where
  | stop {x e} : getParentForEntry s x = .error e → Steps s x [] e
  | step {x p l e} : getParentForEntry s x = .ok p → Steps s p l e → Steps s x (p :: l) e

/-- the reader loop over a list instead of the store -/
def lwalk {σ ρ : Type} (w : Walker σ ρ) (e : RErr) : σ → LEntry → List LEntry → Except RErr ρ
  | st, x, l =>
    match w.visit st x with
    | .done r => r
    | .cont st' =>
      match l with
      | [] => w.endOf e st'
      | p :: l' =>
        match w.arrive st' p with
        | some r => r
        | none => lwalk w e st' p l'

theorem walk_eq {σ ρ : Type} (s : Store) (w : Walker σ ρ) {x : LEntry} {l : List LEntry} {e : RErr}
    (h : Steps s x l e) : ∀ (fuel : Nat) (st : σ), l.length < fuel →
    walk s w fuel st x = lwalk w e st x l := by
  induction h with
  | stop hp =>
    intro fuel st hf
    cases fuel with
    | zero => simp at hf
    | succ n =>
      unfold walk lwalk
      cases w.visit st _ with
      | done r => rfl
      | cont st' => simp [hp]
  | step hp _ ih =>
    intro fuel st hf
    cases fuel with
    | zero => simp at hf
    | succ n =>
      unfold walk lwalk
      cases w.visit st _ with
      | done r => rfl
      | cont st' =>
        simp only [hp]
        cases w.arrive st' _ with
        | some r => rfl
        | none =>
          simp only
          exact ih n st' (by simp at hf; omega)

theorem Steps.det {s : Store} {x : LEntry} {l l' : List LEntry} {e e' : RErr}
    (h : Steps s x l e) (h' : Steps s x l' e') : l = l' ∧ e = e' := by
  induction h generalizing l' e' with
  | stop hp =>
    cases h' with
    | stop hp' => rw [hp] at hp'; cases hp'; exact ⟨rfl, rfl⟩
    | step hp' _ => rw [hp] at hp'; cases hp'
  | step hp _ ih =>
    cases h' with
    | stop hp' => rw [hp] at hp'; cases hp'
    | step hp' hr' =>
      rw [hp] at hp'; cases hp'
      obtain ⟨h1, h2⟩ := ih hr'
      exact ⟨by rw [h1], h2⟩

theorem Steps.suffix {s : Store} {x : LEntry} {l1 : List LEntry} {y : LEntry} {l2 : List LEntry} {e : RErr}
    (h : Steps s x (l1 ++ y :: l2) e) : Steps s y l2 e := by
  induction l1 generalizing x with
  | nil => cases h with | step _ hr => exact hr
  | cons a l1 ih => cases h with | step _ hr => exact ih hr

theorem Steps.head_parent {s : Store} {x p : LEntry} {l : List LEntry} {e : RErr}
    (h : Steps s x (p :: l) e) : getParentForEntry s x = .ok p := by
  cases h with | step hp _ => exact hp

theorem Steps.nil_parent {s : Store} {x : LEntry} {e : RErr}
    (h : Steps s x [] e) : getParentForEntry s x = .error e := by
  cases h with | stop hp => exact hp

theorem Steps.tail {s : Store} {x p : LEntry} {l : List LEntry} {e : RErr}
    (h : Steps s x (p :: l) e) : Steps s p l e := by
  cases h with | step _ hr => exact hr

theorem getEntry_id {s : Store} {i : Id} {x : LEntry} (h : getEntry s i = .ok x) : x.id = i := by
  unfold getEntry at h
  split at h
  · cases h
  · split at h
    · cases h
    · cases h; rfl

/-- an entry returned by `getParentForEntry` is the stored one -/
theorem getParent_stored {s : Store} {x p : LEntry} (h : getParentForEntry s x = .ok p) :
    getEntry s p.id = .ok p := by
  unfold getParentForEntry at h
  cases hg : s.get x.id with
  | none => simp [hg] at h
  | some c =>
    simp only [hg] at h
    cases hpar : c.parents with
    | nil => simp [hpar] at h
    | cons q tl =>
      cases tl with
      | cons _ _ => simp [hpar] at h
      | nil =>
        simp only [hpar] at h
        cases hpe : getEntry s q with
        | error er => simp [hpe] at h
        | ok pe =>
          simp only [hpe] at h
          split at h
          · cases h; rw [getEntry_id hpe]; exact hpe
          · cases h

theorem getEntry_get {s : Store} {i : Id} {x : LEntry} (h : getEntry s i = .ok x) :
    ∃ c, s.get i = some c ∧ c.entry = some x.e := by
  unfold getEntry at h
  split at h
  · cases h
  · rename_i c hc
    split at h
    · cases h
    · rename_i e he
      cases h
      exact ⟨c, hc, he⟩

theorem Steps.stored {s : Store} {x : LEntry} {l : List LEntry} {e : RErr}
    (h : Steps s x l e) : ∀ y ∈ l, getEntry s y.id = .ok y := by
  induction h with
  | stop _ => intro y hy; cases hy
  | step hp _ ih =>
    intro y hy
    rcases List.mem_cons.mp hy with h | h
    · subst h; exact getParent_stored hp
    · exact ih y h

/-! ### The chain cannot be longer than the store (no commit is met twice) -/

theorem length_le_of_nodup_subset : ∀ (l k : List Nat), l.Nodup → (∀ a ∈ l, a ∈ k) → l.length ≤ k.length := by
  intro l
  induction l with
  | nil => intro k _ _; simp
  | cons a l ih =>
    intro k hnd hsub
    have ha : a ∈ k := hsub a List.mem_cons_self
    have hnd' := List.nodup_cons.mp hnd
    have := ih (k.erase a) hnd'.2 (by
      intro b hb
      have hne : b ≠ a := fun h => hnd'.1 (h ▸ hb)
      exact (List.mem_erase_of_ne hne).mpr (hsub b (List.mem_cons_of_mem _ hb)))
    rw [List.length_erase_of_mem ha] at this
    have hpos : 0 < k.length := List.length_pos_of_mem ha
    simp only [List.length_cons]
    omega

theorem lookup_mem_keys {α} : ∀ (cs : List (Nat × α)) (i : Nat) (c : α), cs.lookup i = some c → i ∈ cs.map (·.1) := by
  intro cs
  induction cs with
  | nil => intro i c h; simp [List.lookup] at h
  | cons a cs ih =>
    intro i c h
    obtain ⟨k, v⟩ := a
    simp only [List.lookup] at h
    split at h
    · rename_i heq
      have : i = k := by simpa using heq
      simp [this]
    · simp only [List.map_cons, List.mem_cons]
      exact Or.inr (ih i c h)

theorem Steps.ids_nodup {s : Store} {x : LEntry} {l : List LEntry} {e : RErr}
    (hx : getEntry s x.id = .ok x) (h : Steps s x l e) : ((x :: l).map (·.id)).Nodup := by
  induction h with
  | stop _ => simp
  | @step x p l e hp hr ih =>
    have hpst := getParent_stored hp
    have ihp := ih hpst
    rw [List.map_cons, List.nodup_cons]
    refine ⟨?_, ihp⟩
    intro hmem
    -- x.id occurs among p :: l: then the walk from x would contain itself
    obtain ⟨y, hy, hyid⟩ := List.mem_map.mp hmem
    have hyst : getEntry s y.id = .ok y := (Steps.step hp hr).stored y hy
    have hyx : y = x := by
      rw [hyid] at hyst; rw [hx] at hyst; cases hyst; rfl
    subst hyx
    obtain ⟨l1, l2, hsplit⟩ := List.append_of_mem hy
    have hfull : Steps s y (p :: l) e := Steps.step hp hr
    have hsuf : Steps s y l2 e := by
      have : Steps s y (l1 ++ y :: l2) e := by rw [← hsplit]; exact hfull
      exact this.suffix
    have := (hfull.det hsuf).1
    have hlen : (p :: l).length = l2.length := by rw [this]
    rw [hsplit] at hlen
    simp at hlen
    omega

theorem Steps.length_lt_fuel {s : Store} {x : LEntry} {l : List LEntry} {e : RErr}
    (hx : getEntry s x.id = .ok x) (h : Steps s x l e) : l.length < s.fuel := by
  have hnd := h.ids_nodup hx
  have hsub : ∀ a ∈ (x :: l).map (·.id), a ∈ s.commits.map (·.1) := by
    intro a ha
    obtain ⟨y, hy, rfl⟩ := List.mem_map.mp ha
    have hyst : getEntry s y.id = .ok y := by
      rcases List.mem_cons.mp hy with h1 | h1
      · subst h1; exact hx
      · exact h.stored y h1
    obtain ⟨c, hc, _⟩ := getEntry_get hyst
    exact lookup_mem_keys _ _ _ hc
  have := length_le_of_nodup_subset _ _ hnd hsub
  simp only [List.length_map, List.length_cons] at this
  unfold Store.fuel
  omega

/-! ## From the chain invariant to `Steps` -/

theorem ChainFrom.head {s : Store} {t : Id} {l : List LEntry} (h : ChainFrom s t l) :
    ∃ x rest, l = x :: rest ∧ x.id = t ∧ getEntry s t = .ok x := by
  cases h with
  | root hg => exact ⟨_, [], rfl, rfl, by simp [getEntry, hg]⟩
  | cons hg _ _ => exact ⟨_, _, rfl, rfl, by simp [getEntry, hg]⟩

theorem ChainFrom.steps {s : Store} {t : Id} {l : List LEntry} (h : ChainFrom s t l) :
    ∃ x rest, l = x :: rest ∧ getEntry s t = .ok x ∧ Steps s x rest .notFound := by
  induction h with
  | @root i e hg =>
    refine ⟨⟨i, e⟩, [], rfl, by simp [getEntry, hg], Steps.stop ?_⟩
    simp [getParentForEntry, hg]
  | @cons i e p pe l hg hch hlink ih =>
    obtain ⟨x, rest, hl, hge, hst⟩ := ih
    cases hl
    refine ⟨⟨i, e⟩, pe :: l, rfl, by simp [getEntry, hg], Steps.step ?_ hst⟩
    simp [getParentForEntry, hg, hge, hlink]

end Gittuf.RSL
