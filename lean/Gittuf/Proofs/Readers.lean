import Gittuf.Proofs.Log
/-
Helper lemmas for C04: the reader loops over a list equal the list specifications.
-/
namespace Gittuf.RSL

/-- the annotations among `pre`, in order: what `allAnnotations` holds after walking `pre` -/
def annsOf (pre : List LEntry) : List LEntry := pre.filter (·.isAnnotation)

theorem addAnn_annsOf (pre : List LEntry) (x : LEntry) : addAnn (annsOf pre) x = annsOf (pre ++ [x]) := by
  unfold addAnn annsOf
  by_cases h : x.isAnnotation = true <;> simp [List.filter_append, h]

theorem annsOf_append_ann (pre : List LEntry) (x : LEntry) (h : x.isAnnotation = true) :
    annsOf pre ++ [x] = annsOf (pre ++ [x]) := by
  simp [annsOf, List.filter_append, h]

theorem annsOf_append_nonann (pre : List LEntry) (x : LEntry) (h : x.isAnnotation = false) :
    annsOf pre = annsOf (pre ++ [x]) := by
  simp [annsOf, List.filter_append, h]

theorem refersTo_isAnnotation {e : Entry} {i : Id} (h : e.refersTo i = true) : e.isAnnotation = true := by
  cases e <;> simp_all [Entry.refersTo, Entry.isAnnotation]

theorem skips_refersTo {e : Entry} {i : Id} (h : e.skips i = true) : e.refersTo i = true := by
  cases e <;> simp_all [Entry.refersTo, Entry.skips]

theorem annBackward_append {pre : List LEntry} {x : LEntry} {l : List LEntry}
    (h : AnnBackward (pre ++ x :: l)) : ∀ a ∈ x :: l, a.e.refersTo x.id = false := by
  induction pre with
  | nil => exact h.1
  | cons b pre ih => exact ih h.2

/-- annotations collected while walking down to `x` are all the annotations on `x` -/
theorem filterRelevant_eq {pre : List LEntry} {x : LEntry} {l : List LEntry}
    (h : AnnBackward (pre ++ x :: l)) :
    filterRelevant (annsOf pre) x.id = annotationsOn (pre ++ x :: l) x.id := by
  have hb := annBackward_append h
  unfold filterRelevant annotationsOn annsOf
  rw [List.filter_append, List.filter_filter]
  have h2 : List.filter (fun a => a.e.refersTo x.id) (x :: l) = [] := by
    rw [List.filter_eq_nil_iff]
    intro a ha
    simp [hb a ha]
  rw [h2, List.append_nil]
  apply List.filter_congr
  intro a _
  by_cases hr : a.e.refersTo x.id = true
  · simp [hr, LEntry.isAnnotation, refersTo_isAnnotation hr]
  · simp [hr]

theorem skippedBy_eq {pre : List LEntry} {x : LEntry} {l : List LEntry}
    (h : AnnBackward (pre ++ x :: l)) :
    skippedBy x.id (annsOf pre) = isSkipped (pre ++ x :: l) x.id := by
  have hb := annBackward_append h
  unfold skippedBy isSkipped annsOf
  rw [List.any_append, List.any_filter]
  have h2 : (x :: l).any (fun a => a.e.skips x.id) = false := by
    rw [List.any_eq_false]
    intro a ha hs
    have := hb a ha
    rw [skips_refersTo hs] at this
    cases this
  rw [h2, Bool.or_false]
  congr 1
  funext a
  by_cases hs : a.e.skips x.id = true
  · simp [hs, LEntry.isAnnotation, refersTo_isAnnotation (skips_refersTo hs)]
  · simp [hs]

theorem matchesConds_eq {o : Opts} {pre : List LEntry} {x : LEntry} {l : List LEntry}
    (h : AnnBackward (pre ++ x :: l)) :
    o.matchesConds (annsOf pre) x = o.qualifies (pre ++ x :: l) x := by
  unfold Opts.matchesConds Opts.qualifies
  rw [skippedBy_eq h]
  cases x.e <;> rfl

theorem preWalker_endOf (o : Opts) (e : RErr) (st : List LEntry) : (preWalker o).endOf e st = .error e := by
  cases e <;> rfl

theorem mainWalker_endOf (fx : Fix) (o : Opts) (e : RErr) (st : List LEntry) : (mainWalker fx o).endOf e st = .error e := by
  cases e <;> rfl



theorem preWalker_visit (o : Opts) (anns : List LEntry) (x : LEntry) :
    (preWalker o).visit anns x = if o.isBeforeAnchor x then .done (.ok (anns, x)) else .cont (addAnn anns x) := rfl
theorem preWalker_arrive (o : Opts) (anns : List LEntry) (p : LEntry) :
    (preWalker o).arrive anns p = if p.number < o.untilNum then some (.error .badOptions) else none := rfl

/-- the initial "before" walk over a list -/
theorem prewalk_eq (o : Opts) (e : RErr) : ∀ (l pre : List LEntry) (x : LEntry),
    ¬ (x.number < o.untilNum) →
    lwalk (preWalker o) e (annsOf pre) x l =
      match (x :: l).dropWhile (fun y => !o.isBeforeAnchor y) with
      | [] => if (x :: l).any (fun y => decide (y.number < o.untilNum)) then .error .badOptions else .error e
      | b :: _ =>
        if ((x :: l).takeWhile (fun y => !o.isBeforeAnchor y) ++ [b]).any (fun y => decide (y.number < o.untilNum))
        then .error .badOptions
        else .ok (annsOf (pre ++ (x :: l).takeWhile (fun y => !o.isBeforeAnchor y)), b) := by
  intro l
  induction l with
  | nil =>
    intro pre x hx
    unfold lwalk
    by_cases ha : o.isBeforeAnchor x = true
    · simp [preWalker_visit, ha, hx]
    · simp [preWalker_visit, ha, hx, preWalker_endOf]
  | cons p l' ih =>
    intro pre x hx
    unfold lwalk
    by_cases ha : o.isBeforeAnchor x = true
    · simp [preWalker_visit, ha, hx]
    · have ha' : o.isBeforeAnchor x = false := by simpa using ha
      simp only [preWalker_visit, preWalker_arrive, ha', Bool.false_eq_true, if_false]
      by_cases hp : p.number < o.untilNum
      · simp only [hp, if_true]
        rw [List.dropWhile_cons_of_pos (by simp [ha'])]
        cases hd : List.dropWhile (fun y => !o.isBeforeAnchor y) (p :: l') with
        | nil => simp [hp]
        | cons b r =>
          simp only
          have hmem : p ∈ List.takeWhile (fun y => !o.isBeforeAnchor y) (x :: p :: l') ++ [b] := by
            rw [List.takeWhile_cons_of_pos (by simp [ha'])]
            by_cases hpa : o.isBeforeAnchor p = true
            · have : List.dropWhile (fun y => !o.isBeforeAnchor y) (p :: l') = p :: l' := by
                simp [hpa]
              rw [this] at hd; cases hd
              simp
            · have hpa' : o.isBeforeAnchor p = false := by simpa using hpa
              rw [List.takeWhile_cons_of_pos (by simp [hpa'])]
              simp
          have : (List.takeWhile (fun y => !o.isBeforeAnchor y) (x :: p :: l') ++ [b]).any (fun y => decide (y.number < o.untilNum)) = true := by
            rw [List.any_eq_true]
            exact ⟨p, hmem, by simp [hp]⟩
          simp [this]
      · simp only [hp, if_false]
        rw [addAnn_annsOf, ih (pre ++ [x]) p hp]
        have hdx : List.dropWhile (fun y => !o.isBeforeAnchor y) (x :: p :: l') =
            List.dropWhile (fun y => !o.isBeforeAnchor y) (p :: l') := List.dropWhile_cons_of_pos (by simp [ha'])
        have htx : List.takeWhile (fun y => !o.isBeforeAnchor y) (x :: p :: l') =
            x :: List.takeWhile (fun y => !o.isBeforeAnchor y) (p :: l') := List.takeWhile_cons_of_pos (by simp [ha'])
        rw [hdx, htx]
        have hxg : decide (x.number < o.untilNum) = false := by simpa using hx
        cases hd : List.dropWhile (fun y => !o.isBeforeAnchor y) (p :: l') with
        | nil => simp [List.any_cons, hxg]
        | cons b r => simp [List.any_cons, hxg]



theorem mainWalker_visit (o : Opts) (anns : List LEntry) (x : LEntry) :
    (mainWalker Fix.all o).visit anns x =
      if x.isAnnotation then
        if o.untilId == some x.id then .done (.error .notFound) else .cont (anns ++ [x])
      else if o.matchesConds anns x then .done (.ok (x, filterRelevant anns x.id))
      else if o.untilId == some x.id then .done (.error .notFound) else .cont anns := by
  simp [mainWalker, Fix.all]
theorem mainWalker_arrive (o : Opts) (anns : List LEntry) (p : LEntry) :
    (mainWalker Fix.all o).arrive anns p =
      if o.untilNum != 0 && p.number < o.untilNum then some (.error .notFound) else none := by
  simp [mainWalker, Fix.all]

theorem qualifies_annotation (o : Opts) (log : List LEntry) (x : LEntry) (h : x.isAnnotation = true) :
    o.qualifies log x = false := by
  unfold Opts.qualifies
  unfold LEntry.isAnnotation at h
  cases hx : x.e <;> simp_all [Entry.isAnnotation]

theorem untilWindow_nil (o : Opts) : untilWindow o [] = ([], false) := by
  unfold untilWindow
  cases o.untilId <;> simp

theorem untilWindow_stop (o : Opts) (x : LEntry) (l : List LEntry) (h : o.untilId = some x.id) :
    untilWindow o (x :: l) = ([x], true) := by
  unfold untilWindow
  simp [h, takeThrough]

theorem untilWindow_below (o : Opts) (p : LEntry) (l : List LEntry) (h1 : o.untilId = none)
    (h2 : o.untilNum ≠ 0) (h3 : p.number < o.untilNum) : untilWindow o (p :: l) = ([], true) := by
  unfold untilWindow
  have : ¬ (o.untilNum ≤ p.number) := by omega
  simp [h1, h2, this]

theorem untilWindow_cons (o : Opts) (x : LEntry) (l : List LEntry) (h1 : o.untilId ≠ some x.id)
    (h2 : o.untilNum ≤ x.number) :
    untilWindow o (x :: l) = (x :: (untilWindow o l).1, (untilWindow o l).2) := by
  unfold untilWindow
  cases hu : o.untilId with
  | some u =>
    have hne : (x.id == u) = false := by
      rw [hu] at h1
      simpa using fun h => h1 (by rw [h])
    simp only [List.any_cons, hne, Bool.false_or]
    by_cases ha : l.any (fun y => y.id == u) = true
    · simp [ha, takeThrough, hne]
    · simp [ha]
  | none =>
    simp only
    by_cases hn : o.untilNum = 0
    · simp [hn]
    · simp [hn, h2]

/-- the main search loop (with F5 repaired) over a list is `find?` over the until window -/
theorem mainwalk_eq (o : Opts) (e : RErr) (log : List LEntry) (hback : AnnBackward log)
    (hnb : o.untilId = none ∨ o.untilNum = 0) :
    ∀ (l pre : List LEntry) (x : LEntry), log = pre ++ x :: l → o.untilNum ≤ x.number →
    lwalk (mainWalker Fix.all o) e (annsOf pre) x l =
      match (untilWindow o (x :: l)).1.find? (o.qualifies log) with
      | some y => .ok (y, annotationsOn log y.id)
      | none => .error (if (untilWindow o (x :: l)).2 then .notFound else e) := by
  intro l
  induction l with
  | nil =>
    intro pre x hlog hx
    have hb : AnnBackward (pre ++ x :: []) := hlog ▸ hback
    unfold lwalk
    rw [mainWalker_visit, matchesConds_eq hb, filterRelevant_eq hb, ← hlog]
    by_cases hstop : o.untilId = some x.id
    · rw [untilWindow_stop o x [] hstop]
      by_cases ha : x.isAnnotation = true
      · simp [ha, hstop, qualifies_annotation o log x ha]
      · by_cases hq : o.qualifies log x = true
        · simp [ha, hq]
        · simp [ha, hq, hstop]
    · rw [untilWindow_cons o x [] hstop hx, untilWindow_nil]
      have hstop' : (o.untilId == some x.id) = false := by simpa using hstop
      by_cases ha : x.isAnnotation = true
      · simp [ha, hstop', qualifies_annotation o log x ha, mainWalker_endOf]
      · by_cases hq : o.qualifies log x = true
        · simp [ha, hq]
        · simp [ha, hq, hstop', mainWalker_endOf]
  | cons p l' ih =>
    intro pre x hlog hx
    have hb : AnnBackward (pre ++ x :: p :: l') := hlog ▸ hback
    have hlog' : log = (pre ++ [x]) ++ p :: l' := by simp [hlog]
    have hvis := mainWalker_visit o (annsOf pre) x
    rw [matchesConds_eq hb, filterRelevant_eq hb, ← hlog] at hvis
    by_cases hstop : o.untilId = some x.id
    · unfold lwalk
      rw [hvis, untilWindow_stop o x _ hstop]
      by_cases ha : x.isAnnotation = true
      · simp [ha, hstop, qualifies_annotation o log x ha]
      · by_cases hq : o.qualifies log x = true
        · simp [ha, hq]
        · simp [ha, hq, hstop]
    · rw [untilWindow_cons o x _ hstop hx]
      have hstop' : (o.untilId == some x.id) = false := by simpa using hstop
      -- what happens after `x` has been passed over
      have hrest : ∀ anns', (mainWalker Fix.all o).visit (annsOf pre) x = .cont anns' →
          anns' = annsOf (pre ++ [x]) →
          lwalk (mainWalker Fix.all o) e (annsOf pre) x (p :: l') =
          match (untilWindow o (p :: l')).1.find? (o.qualifies log) with
          | some y => .ok (y, annotationsOn log y.id)
          | none => .error (if (untilWindow o (p :: l')).2 then .notFound else e) := by
        intro anns' hv hanns
        unfold lwalk
        simp only [hv]
        rw [mainWalker_arrive]
        by_cases hlow : o.untilNum ≠ 0 ∧ p.number < o.untilNum
        · have hid : o.untilId = none := by
            rcases hnb with h | h
            · exact h
            · exact absurd h hlow.1
          rw [untilWindow_below o p l' hid hlow.1 hlow.2]
          simp [hlow.1, hlow.2]
        · have hge : o.untilNum ≤ p.number := by
            by_cases h0 : o.untilNum = 0
            · omega
            · have : ¬ p.number < o.untilNum := fun h => hlow ⟨h0, h⟩
              omega
          have hc : (o.untilNum != 0 && decide (p.number < o.untilNum)) = false := by
            by_cases h0 : o.untilNum = 0
            · simp [h0]
            · have : ¬ p.number < o.untilNum := fun h => hlow ⟨h0, h⟩
              simp [this]
          simp only [hc, Bool.false_eq_true, if_false]
          rw [hanns]
          exact ih (pre ++ [x]) p hlog' hge
      by_cases ha : x.isAnnotation = true
      · rw [List.find?_cons_of_neg (by simp [qualifies_annotation o log x ha])]
        exact hrest _ (by rw [hvis]; simp [ha, hstop']) (annsOf_append_ann pre x ha)
      · have ha' : x.isAnnotation = false := by simpa using ha
        by_cases hq : o.qualifies log x = true
        · unfold lwalk
          rw [hvis]
          simp [ha', hq]
        · rw [List.find?_cons_of_neg (by simp [hq])]
          exact hrest _ (by rw [hvis]; simp [ha', hq, hstop']) (annsOf_append_nonann pre x ha')



theorem getLatest_stored {s : Store} {x : LEntry} (h : getLatestEntry s = .ok x) : getEntry s x.id = .ok x := by
  unfold getLatestEntry at h
  cases ht : s.tip with
  | none => simp [ht] at h
  | some t =>
    simp only [ht] at h
    rw [getEntry_id h]; exact h

theorem numBad_false {o : Opts} {n : Nat} (h : o.numBad n = false) : o.untilNum ≤ n := by
  unfold Opts.numBad at h
  by_cases hn : n = 0
  · simp [hn] at h; omega
  · simp [hn] at h
    by_cases hu : o.untilNum = 0
    · omega
    · have := h hu; omega

theorem staticBad_false {o : Opts} (h : o.staticBad = false) : o.untilId = none ∨ o.untilNum = 0 := by
  unfold Opts.staticBad at h
  simp only [Bool.or_eq_false_iff, Bool.and_eq_false_iff] at h
  rcases h.1.1.2 with h1 | h1
  · left; cases hu : o.untilId <;> simp_all
  · right; simpa using h1

/-- `GetLatestReferenceUpdaterEntry` (F5 and F24 repaired) over any chain — complete or cut
short by a tampered link — is the list specification. -/
theorem latest_refines (o : Opts) (s : Store) (x : LEntry) (l : List LEntry) (e : RErr)
    (htip : getLatestEntry s = .ok x) (hst : Steps s x l e) (hback : AnnBackward (x :: l)) :
    getLatestReferenceUpdaterEntry Fix.all o s = latestSpec o (x :: l) e := by
  have hxs := getLatest_stored htip
  have hfuel := hst.length_lt_fuel hxs
  unfold getLatestReferenceUpdaterEntry latestSpec
  by_cases hsb : o.staticBad = true
  · simp [hsb]
  have hsb' : o.staticBad = false := by simpa using hsb
  simp only [hsb', Bool.false_eq_true, if_false, htip]
  by_cases hnb : o.numBad x.number = true
  · simp [hnb]
  have hnb' : o.numBad x.number = false := by simpa using hnb
  simp only [hnb', Bool.false_eq_true, if_false]
  have hxle := numBad_false hnb'
  have hxu : ¬ x.number < o.untilNum := by omega
  have hid := staticBad_false hsb'
  by_cases hbef : o.hasBefore = true
  · simp only [hbef, if_true]
    rw [walk_eq s (preWalker o) hst s.fuel [] hfuel]
    have hpre := prewalk_eq o e l [] x hxu
    have hsplit := List.takeWhile_append_dropWhile (p := fun y => !o.isBeforeAnchor y) (l := x :: l)
    rw [show annsOf [] = [] from rfl] at hpre
    rw [hpre]
    cases hd : List.dropWhile (fun y => !o.isBeforeAnchor y) (x :: l) with
    | nil => by_cases hany : (x :: l).any (fun y => decide (y.number < o.untilNum)) = true <;> simp [hany]
    | cons b older =>
      simp only
      by_cases hany : (List.takeWhile (fun y => !o.isBeforeAnchor y) (x :: l) ++ [b]).any (fun y => decide (y.number < o.untilNum)) = true
      · simp [hany]
      simp only [hany, Bool.false_eq_true, if_false]
      rw [hd] at hsplit
      -- the walk continues from the anchor
      have hstb : Steps s b older e := by
        cases htw : List.takeWhile (fun y => !o.isBeforeAnchor y) (x :: l) with
        | nil =>
          rw [htw] at hsplit
          simp only [List.nil_append] at hsplit
          cases hsplit; exact hst
        | cons x' tw' =>
          rw [htw] at hsplit
          simp only [List.cons_append, List.cons.injEq] at hsplit
          obtain ⟨_, hl⟩ := hsplit
          rw [← hl] at hst
          exact hst.suffix
      have hlen : older.length ≤ l.length := by
        have := congrArg List.length hsplit
        simp only [List.length_append, List.length_cons] at this
        omega
      cases older with
      | nil =>
        rw [hstb.nil_parent]
        simp [untilWindow_nil]
      | cons p older' =>
        rw [hstb.head_parent]
        simp only
        by_cases hlow : o.untilNum ≠ 0 ∧ p.number < o.untilNum
        · have hidn : o.untilId = none := by
            rcases hid with h | h
            · exact h
            · exact absurd h hlow.1
          rw [untilWindow_below o p older' hidn hlow.1 hlow.2]
          simp [Fix.all, hlow.1, hlow.2]
        · have hge : o.untilNum ≤ p.number := by
            by_cases h0 : o.untilNum = 0
            · omega
            · have : ¬ p.number < o.untilNum := fun h => hlow ⟨h0, h⟩
              omega
          have hc : (Fix.all.f24 && o.untilNum != 0 && decide (p.number < o.untilNum)) = false := by
            by_cases h0 : o.untilNum = 0
            · simp [h0]
            · have : ¬ p.number < o.untilNum := fun h => hlow ⟨h0, h⟩
              simp [this]
          simp only [hc, Bool.false_eq_true, if_false]
          have hf2 : older'.length < s.fuel := by simp only [List.length_cons] at hlen; omega
          rw [walk_eq s (mainWalker Fix.all o) hstb.tail s.fuel _ hf2, addAnn_annsOf]
          have hlog : x :: l = ([] ++ List.takeWhile (fun y => !o.isBeforeAnchor y) (x :: l) ++ [b]) ++ p :: older' := by
            rw [List.nil_append, List.append_assoc]; exact hsplit.symm
          exact mainwalk_eq o e (x :: l) hback hid older' _ p hlog hge
  · have hbef' : o.hasBefore = false := by simpa using hbef
    simp only [hbef', Bool.false_eq_true, if_false]
    rw [walk_eq s (mainWalker Fix.all o) hst s.fuel [] hfuel]
    exact mainwalk_eq o e (x :: l) hback hid l [] x rfl hxle

theorem mainWalker_asis (o : Opts) (h : o.untilId = none) : mainWalker {} o = mainWalker Fix.all o := by
  unfold mainWalker
  simp [Fix.all, h]

theorem latest_asis_eq (o : Opts) (s : Store) (h1 : o.untilId = none)
    (h2 : o.untilNum = 0 ∨ o.hasBefore = false) :
    getLatestReferenceUpdaterEntry {} o s = getLatestReferenceUpdaterEntry Fix.all o s := by
  unfold getLatestReferenceUpdaterEntry
  rw [mainWalker_asis o h1]
  rcases h2 with h | h <;> simp [h]

theorem annBackward_of_B : ∀ (l : List LEntry), annBackwardB l = true → AnnBackward l := by
  intro l
  induction l with
  | nil => intro _; trivial
  | cons x older ih =>
    intro h
    unfold annBackwardB at h
    rw [Bool.and_eq_true] at h
    refine ⟨?_, ih h.2⟩
    intro a ha
    have := List.all_eq_true.mp h.1 a ha
    simpa using this



def updFirst (ref : String) (c : Option LEntry) (x : LEntry) : Option LEntry :=
  if refMatches ref x then some x else c

theorem firstWalker_visit (ref : String) (st : Option LEntry × List LEntry) (x : LEntry) :
    (firstWalker ref).visit st x = .cont (updFirst ref st.1 x, addAnn st.2 x) := by
  obtain ⟨i, e⟩ := x
  obtain ⟨c, anns⟩ := st
  cases e <;> simp [firstWalker, updFirst, refMatches, addAnn, LEntry.isAnnotation, Entry.refName?, Entry.isAnnotation] <;>
    split <;> rfl

theorem firstWalker_arrive (ref : String) (st : Option LEntry × List LEntry) (p : LEntry) :
    (firstWalker ref).arrive st p = none := rfl

theorem firstwalk_eq (ref : String) (e : RErr) : ∀ (l : List LEntry) (cur : Option LEntry) (pre : List LEntry) (x : LEntry),
    lwalk (firstWalker ref) e (cur, annsOf pre) x l =
      (firstWalker ref).endOf e ((x :: l).foldl (updFirst ref) cur, annsOf (pre ++ x :: l)) := by
  intro l
  induction l with
  | nil =>
    intro cur pre x
    unfold lwalk
    simp [firstWalker_visit, addAnn_annsOf]
  | cons p l' ih =>
    intro cur pre x
    unfold lwalk
    simp only [firstWalker_visit, firstWalker_arrive, addAnn_annsOf]
    rw [ih]
    simp

theorem foldl_updFirst (ref : String) : ∀ (l : List LEntry) (c : Option LEntry),
    l.foldl (updFirst ref) c = ((l.filter (refMatches ref)).getLast?).or c := by
  intro l
  induction l with
  | nil => intro c; simp
  | cons a l ih =>
    intro c
    simp only [List.foldl_cons, ih]
    unfold updFirst
    by_cases h : refMatches ref a = true
    · simp only [h, if_true, List.filter_cons_of_pos]
      rw [List.getLast?_cons]
      cases (List.filter (refMatches ref) l).getLast? <;> simp
    · simp [h]

theorem filterRelevant_annsOf (log : List LEntry) (i : Id) : filterRelevant (annsOf log) i = annotationsOn log i := by
  unfold filterRelevant annotationsOn annsOf
  rw [List.filter_filter]
  apply List.filter_congr
  intro a _
  by_cases hr : a.e.refersTo i = true
  · simp [hr, LEntry.isAnnotation, refersTo_isAnnotation hr]
  · simp [hr]

/-- `GetFirstReferenceUpdaterEntryForRef` / `GetFirstEntry` over any chain -/
theorem first_refines (ref : String) (s : Store) (x : LEntry) (l : List LEntry) (e : RErr)
    (htip : getLatestEntry s = .ok x) (hst : Steps s x l e) :
    getFirstReferenceUpdaterEntryForRef ref s = firstSpec ref (x :: l) e := by
  have hfuel := hst.length_lt_fuel (getLatest_stored htip)
  unfold getFirstReferenceUpdaterEntryForRef firstSpec
  simp only [htip]
  rw [walk_eq s (firstWalker ref) hst s.fuel _ hfuel]
  have := firstwalk_eq ref e l none [] x
  rw [show annsOf [] = [] from rfl] at this
  rw [this, foldl_updFirst]
  cases e with
  | notFound =>
    simp only [Walker.endOf, firstWalker, List.nil_append]
    cases hg : (List.filter (refMatches ref) (x :: l)).getLast? with
    | none => simp
    | some f => simp [filterRelevant_annsOf]
  | _ => rfl



theorem rangeSkip_visit (last : Id) (anns : List LEntry) (x : LEntry) :
    (rangeSkipWalker last).visit anns x = if x.id == last then .done (.ok (anns, x)) else .cont (addAnn anns x) := rfl
theorem rangeSkip_arrive (last : Id) (anns : List LEntry) (p : LEntry) :
    (rangeSkipWalker last).arrive anns p = none := rfl
theorem rangeSkip_endOf (last : Id) (e : RErr) (st : List LEntry) : (rangeSkipWalker last).endOf e st = .error e := by
  cases e <;> rfl

theorem rangeSkip_eq (last : Id) (e : RErr) : ∀ (l pre : List LEntry) (x : LEntry),
    lwalk (rangeSkipWalker last) e (annsOf pre) x l =
      match (x :: l).dropWhile (fun y => y.id != last) with
      | [] => .error e
      | b :: _ => .ok (annsOf (pre ++ (x :: l).takeWhile (fun y => y.id != last)), b) := by
  intro l
  induction l with
  | nil =>
    intro pre x
    unfold lwalk
    by_cases hx : x.id = last
    · simp [rangeSkip_visit, hx]
    · simp [rangeSkip_visit, hx, rangeSkip_endOf]
  | cons p l' ih =>
    intro pre x
    unfold lwalk
    by_cases hx : x.id = last
    · simp [rangeSkip_visit, hx]
    · have hx' : (x.id != last) = true := by simpa using hx
      have hxe : (x.id == last) = false := by simpa using hx
      simp only [rangeSkip_visit, rangeSkip_arrive, hxe, Bool.false_eq_true, if_false]
      rw [addAnn_annsOf, ih (pre ++ [x]) p]
      have hdx : List.dropWhile (fun y => y.id != last) (x :: p :: l') =
          List.dropWhile (fun y => y.id != last) (p :: l') := List.dropWhile_cons_of_pos hx'
      have htx : List.takeWhile (fun y => y.id != last) (x :: p :: l') =
          x :: List.takeWhile (fun y => y.id != last) (p :: l') := List.takeWhile_cons_of_pos hx'
      rw [hdx, htx]
      cases List.dropWhile (fun y => y.id != last) (p :: l') with
      | nil => rfl
      | cons b r => simp

theorem relevantFor_annotation (ref : String) (x : LEntry) (h : x.isAnnotation = true) : relevantFor ref x = false := by
  obtain ⟨i, e⟩ := x
  cases e <;> simp_all [relevantFor, LEntry.isAnnotation, Entry.isAnnotation, Entry.refName?]

theorem rangeMain_visit (first : Id) (ref : String) (st : List LEntry × List LEntry) (x : LEntry) :
    (rangeMainWalker first ref).visit st x =
      if x.id == first then .done (.ok (st, x))
      else .cont (st.1 ++ (if relevantFor ref x then [x] else []), addAnn st.2 x) := by
  obtain ⟨stack, anns⟩ := st
  unfold rangeMainWalker addAnn
  by_cases hx : (x.id == first) = true
  · simp [hx]
  · by_cases ha : x.isAnnotation = true
    · simp [hx, ha, relevantFor_annotation ref x ha]
    · by_cases hr : relevantFor ref x = true <;> simp [hx, ha, hr]
theorem rangeMain_arrive (first : Id) (ref : String) (st : List LEntry × List LEntry) (p : LEntry) :
    (rangeMainWalker first ref).arrive st p = none := rfl
theorem rangeMain_endOf (first : Id) (ref : String) (e : RErr) (st : List LEntry × List LEntry) :
    (rangeMainWalker first ref).endOf e st = .error e := by
  cases e <;> rfl

theorem rangeMain_eq (first : Id) (ref : String) (e : RErr) : ∀ (l stack pre : List LEntry) (x : LEntry),
    lwalk (rangeMainWalker first ref) e (stack, annsOf pre) x l =
      match (x :: l).dropWhile (fun y => y.id != first) with
      | [] => .error e
      | f :: _ => .ok ((stack ++ ((x :: l).takeWhile (fun y => y.id != first)).filter (relevantFor ref),
                        annsOf (pre ++ (x :: l).takeWhile (fun y => y.id != first))), f) := by
  intro l
  induction l with
  | nil =>
    intro stack pre x
    unfold lwalk
    by_cases hx : x.id = first
    · simp [rangeMain_visit, hx]
    · simp [rangeMain_visit, hx, rangeMain_endOf]
  | cons p l' ih =>
    intro stack pre x
    unfold lwalk
    by_cases hx : x.id = first
    · simp [rangeMain_visit, hx]
    · have hx' : (x.id != first) = true := by simpa using hx
      have hxe : (x.id == first) = false := by simpa using hx
      simp only [rangeMain_visit, rangeMain_arrive, hxe, Bool.false_eq_true, if_false]
      rw [addAnn_annsOf, ih _ (pre ++ [x]) p]
      have hdx : List.dropWhile (fun y => y.id != first) (x :: p :: l') =
          List.dropWhile (fun y => y.id != first) (p :: l') := List.dropWhile_cons_of_pos hx'
      have htx : List.takeWhile (fun y => y.id != first) (x :: p :: l') =
          x :: List.takeWhile (fun y => y.id != first) (p :: l') := List.takeWhile_cons_of_pos hx'
      rw [hdx, htx]
      cases List.dropWhile (fun y => y.id != first) (p :: l') with
      | nil => rfl
      | cons b r =>
        by_cases hr : relevantFor ref x = true <;> simp [hr]


theorem Steps.of_split {s : Store} {tw : List LEntry} {b : LEntry} {older : List LEntry} {x : LEntry}
    {l : List LEntry} {e : RErr} (hsplit : tw ++ b :: older = x :: l) (hst : Steps s x l e) : Steps s b older e := by
  cases tw with
  | nil =>
    simp only [List.nil_append] at hsplit
    cases hsplit; exact hst
  | cons x' tw' =>
    simp only [List.cons_append, List.cons.injEq] at hsplit
    obtain ⟨_, hl⟩ := hsplit
    rw [← hl] at hst
    exact hst.suffix

theorem filter_beq_nodup : ∀ (ids : List Nat) (i : Nat), ids.Nodup →
    ids.filter (· == i) = if ids.contains i then [i] else [] := by
  intro ids
  induction ids with
  | nil => intro i _; rfl
  | cons a ids ih =>
    intro i hnd
    have hnd' := List.nodup_cons.mp hnd
    by_cases ha : a = i
    · subst ha
      have hni : ids.contains a = false := by simpa using hnd'.1
      have := ih a hnd'.2
      rw [hni] at this
      simp [this]
    · have hne : (a == i) = false := by simpa using ha
      have hne' : (i == a) = false := by simpa using fun h => ha h.symm
      rw [List.filter_cons]
      simp only [hne, Bool.false_eq_true, if_false, List.contains_cons, hne', Bool.false_or]
      exact ih i hnd'.2

theorem flatMap_ite_singleton {α} (p : α → Bool) : ∀ (l : List α),
    l.flatMap (fun a => if p a then [a] else []) = l.filter p := by
  intro l
  induction l with
  | nil => rfl
  | cons a l ih =>
    simp only [List.flatMap_cons, ih, List.filter_cons]
    by_cases h : p a = true <;> simp [h]

theorem flatMap_congr' {α β} (f g : α → List β) : ∀ (l : List α), (∀ a ∈ l, f a = g a) → l.flatMap f = l.flatMap g := by
  intro l
  induction l with
  | nil => intro _; rfl
  | cons a l ih =>
    intro h
    simp only [List.flatMap_cons]
    rw [h a List.mem_cons_self, ih (fun b hb => h b (List.mem_cons_of_mem _ hb))]

/-- annotations list each id once -/
def AnnIdsNodup (l : List LEntry) : Prop :=
  ∀ a ∈ l, ∀ ids sk m n, a.e = .annotation ids sk m n → ids.Nodup

theorem annotationMapFor_eq (anns : List LEntry) (i : Id) (hnd : AnnIdsNodup anns) :
    annotationMapFor anns i = (anns.filter (fun a => a.e.refersTo i)).reverse := by
  unfold annotationMapFor
  rw [← List.filter_reverse, ← flatMap_ite_singleton]
  apply flatMap_congr'
  intro a ha
  have ha' : a ∈ anns := List.mem_reverse.mp ha
  cases hae : a.e with
  | annotation ids sk m n =>
    have := filter_beq_nodup ids i (hnd a ha' ids sk m n hae)
    simp only [this, Entry.refersTo]
    by_cases hc : i ∈ ids <;> simp [hc]
  | reference r t n => simp [Entry.refersTo]
  | propagation r t u ue n => simp [Entry.refersTo]

theorem annBackward_newer {P Q : List LEntry} (h : AnnBackward (P ++ Q)) {y : LEntry} (hy : y ∈ P) :
    ∀ a ∈ Q, a.e.refersTo y.id = false := by
  induction P with
  | nil => cases hy
  | cons z P' ih =>
    rcases List.mem_cons.mp hy with h1 | h1
    · subst h1
      intro a ha
      exact h.1 a (List.mem_cons_of_mem _ (List.mem_append_right _ ha))
    · exact ih h.2 h1

/-- `GetReferenceUpdaterEntriesInRangeForRef` over any chain -/
theorem range_refines (first last : Id) (ref : String) (s : Store) (x : LEntry) (l : List LEntry) (e : RErr)
    (htip : getLatestEntry s = .ok x) (hst : Steps s x l e) (hback : AnnBackward (x :: l))
    (hnd : AnnIdsNodup (x :: l)) :
    getReferenceUpdaterEntriesInRangeForRef first last ref s = rangeSpec first last ref (x :: l) e := by
  have hfuel := hst.length_lt_fuel (getLatest_stored htip)
  unfold getReferenceUpdaterEntriesInRangeForRef rangeSpec
  simp only [htip]
  rw [walk_eq s (rangeSkipWalker last) hst s.fuel [] hfuel]
  have h1 := rangeSkip_eq last e l [] x
  rw [show annsOf [] = [] from rfl] at h1
  rw [h1]
  have hsplit1 := List.takeWhile_append_dropWhile (p := fun y => y.id != last) (l := x :: l)
  cases hd1 : List.dropWhile (fun y => y.id != last) (x :: l) with
  | nil => rfl
  | cons b older =>
    simp only
    rw [hd1] at hsplit1
    have hstb : Steps s b older e := Steps.of_split hsplit1 hst
    have hlen : older.length ≤ l.length := by
      have := congrArg List.length hsplit1
      simp only [List.length_append, List.length_cons] at this
      omega
    rw [walk_eq s (rangeMainWalker first ref) hstb s.fuel _ (by omega)]
    rw [rangeMain_eq first ref e older [] _ b]
    have hsplit2 := List.takeWhile_append_dropWhile (p := fun y => y.id != first) (l := b :: older)
    cases hd2 : List.dropWhile (fun y => y.id != first) (b :: older) with
    | nil => rfl
    | cons f older' =>
      simp only
      rw [hd2] at hsplit2
      -- the log split at the first entry of the range
      have hlog : x :: l = (List.takeWhile (fun y => y.id != last) (x :: l) ++
          List.takeWhile (fun y => y.id != first) (b :: older)) ++ f :: older' := by
        rw [List.append_assoc, hsplit2, hsplit1]
      generalize List.takeWhile (fun y => y.id != last) (x :: l) = tw1 at *
      generalize List.takeWhile (fun y => y.id != first) (b :: older) = tw2 at *
      have hstack : (if relevantFor ref f = true then
            [] ++ List.filter (relevantFor ref) (tw2) ++ [f]
          else [] ++ List.filter (relevantFor ref) (tw2)) =
          List.filter (relevantFor ref) (tw2 ++ [f]) := by
        by_cases hr : relevantFor ref f = true <;> simp [hr, List.filter_append]
      rw [hstack]
      congr 1
      apply List.map_congr_left
      intro y hy
      have hyseg : y ∈ tw2 ++ [f] :=
        (List.mem_filter.mp (List.mem_reverse.mp hy)).1
      congr 1
      have hb' : AnnBackward ((tw1 ++
          tw2) ++ f :: older') := hlog ▸ hback
      have hold : ∀ a ∈ f :: older', a.e.refersTo y.id = false := by
        rcases List.mem_append.mp hyseg with h | h
        · exact annBackward_newer hb' (List.mem_append_right _ h)
        · have : y = f := by simpa using h
          subst this
          exact annBackward_append hb'
      have hndA : AnnIdsNodup (annsOf ([] ++ tw1 ++
          tw2)) := by
        intro a ha
        apply hnd a
        rw [hlog]
        apply List.mem_append_left
        have := (List.mem_filter.mp ha).1
        simpa using this
      rw [annotationMapFor_eq _ _ hndA]
      congr 1
      have := filterRelevant_annsOf ([] ++ tw1 ++
          tw2) y.id
      unfold filterRelevant at this
      rw [this]
      have h2 : List.filter (fun a => a.e.refersTo y.id) (f :: older') = [] := by
        rw [List.filter_eq_nil_iff]
        intro a ha
        simp [hold a ha]
      unfold annotationsOn
      rw [hlog]
      simp only [List.filter_append, List.nil_append, h2, List.append_nil]



theorem ngSkip_visit (pid : Id) (anns : List LEntry) (x : LEntry) :
    (ngSkipWalker pid).visit anns x = .cont (addAnn anns x) := rfl
theorem ngSkip_arrive (pid : Id) (anns : List LEntry) (p : LEntry) :
    (ngSkipWalker pid).arrive anns p = if p.id == pid then some (.ok (anns, p)) else none := rfl
theorem ngSkip_endOf (pid : Id) (e : RErr) (st : List LEntry) : (ngSkipWalker pid).endOf e st = .error e := by
  cases e <;> rfl

/-- first loop of `GetNonGittufParent…`: walk until standing on the commit `pid` -/
theorem ngSkip_eq (pid : Id) (e : RErr) : ∀ (l pre : List LEntry) (x : LEntry),
    lwalk (ngSkipWalker pid) e (annsOf pre) x l =
      match l.dropWhile (fun y => y.id != pid) with
      | [] => .error e
      | b :: _ => .ok (annsOf (pre ++ x :: l.takeWhile (fun y => y.id != pid)), b) := by
  intro l
  induction l with
  | nil =>
    intro pre x
    unfold lwalk
    simp [ngSkip_visit, ngSkip_endOf]
  | cons p l' ih =>
    intro pre x
    unfold lwalk
    simp only [ngSkip_visit, ngSkip_arrive, addAnn_annsOf]
    by_cases hp : p.id = pid
    · simp [hp]
    · have hp' : (p.id != pid) = true := by simpa using hp
      have hpe : (p.id == pid) = false := by simpa using hp
      simp only [hpe, Bool.false_eq_true, if_false]
      have hdx : List.dropWhile (fun y => y.id != pid) (p :: l') =
          List.dropWhile (fun y => y.id != pid) l' := List.dropWhile_cons_of_pos hp'
      have htx : List.takeWhile (fun y => y.id != pid) (p :: l') =
          p :: List.takeWhile (fun y => y.id != pid) l' := List.takeWhile_cons_of_pos hp'
      rw [ih (pre ++ [x]) p, hdx, htx]
      cases List.dropWhile (fun y => y.id != pid) l' with
      | nil => rfl
      | cons b r => simp

theorem ngMain_visit (anns : List LEntry) (x : LEntry) :
    ngMainWalker.visit anns x =
      if isNonGittufUpdater x then .done (.ok (x, filterRelevant anns x.id)) else .cont (addAnn anns x) := by
  obtain ⟨i, e⟩ := x
  cases e <;> simp [ngMainWalker, isNonGittufUpdater, addAnn, LEntry.isAnnotation, Entry.refName?, Entry.isAnnotation] <;>
    split <;> simp_all
theorem ngMain_arrive (anns : List LEntry) (p : LEntry) : ngMainWalker.arrive anns p = none := rfl
theorem ngMain_endOf (e : RErr) (st : List LEntry) : ngMainWalker.endOf e st = .error e := by
  cases e <;> rfl

/-- second loop: the first reference updater outside refs/gittuf/ -/
theorem ngMain_eq (e : RErr) (log : List LEntry) (hback : AnnBackward log) : ∀ (l pre : List LEntry) (x : LEntry),
    log = pre ++ x :: l →
    lwalk ngMainWalker e (annsOf pre) x l =
      match (x :: l).find? isNonGittufUpdater with
      | some z => .ok (z, annotationsOn log z.id)
      | none => .error e := by
  intro l
  induction l with
  | nil =>
    intro pre x hlog
    have hb : AnnBackward (pre ++ x :: []) := hlog ▸ hback
    unfold lwalk
    rw [ngMain_visit, filterRelevant_eq hb, ← hlog]
    by_cases hq : isNonGittufUpdater x = true
    · simp [hq]
    · simp [hq, ngMain_endOf]
  | cons p l' ih =>
    intro pre x hlog
    have hb : AnnBackward (pre ++ x :: p :: l') := hlog ▸ hback
    unfold lwalk
    rw [ngMain_visit, filterRelevant_eq hb, ← hlog]
    by_cases hq : isNonGittufUpdater x = true
    · simp [hq]
    · simp only [hq, Bool.false_eq_true, if_false, ngMain_arrive, addAnn_annsOf]
      have hfx : List.find? isNonGittufUpdater (x :: p :: l') = List.find? isNonGittufUpdater (p :: l') :=
        List.find?_cons_of_neg (by simp [hq])
      rw [ih (pre ++ [x]) p (by simp [hlog]), hfx]

/-- in a list with distinct ids, scanning for an element's id finds that element -/
theorem dropWhile_id_split : ∀ (A : List LEntry) (y : LEntry) (B : List LEntry),
    ((A ++ y :: B).map (·.id)).Nodup →
    (A ++ y :: B).dropWhile (fun z => z.id != y.id) = y :: B ∧
    (A ++ y :: B).takeWhile (fun z => z.id != y.id) = A := by
  intro A
  induction A with
  | nil => intro y B _; simp
  | cons a A ih =>
    intro y B hnd
    simp only [List.cons_append, List.map_cons, List.nodup_cons] at hnd
    have hne : a.id ≠ y.id := by
      intro h
      apply hnd.1
      rw [h]
      simp
    have hne' : (a.id != y.id) = true := by simpa using hne
    obtain ⟨h1, h2⟩ := ih y B hnd.2
    simp only [List.cons_append]
    have hdx : List.dropWhile (fun z => z.id != y.id) (a :: (A ++ y :: B)) =
        List.dropWhile (fun z => z.id != y.id) (A ++ y :: B) := List.dropWhile_cons_of_pos hne'
    have htx : List.takeWhile (fun z => z.id != y.id) (a :: (A ++ y :: B)) =
        a :: List.takeWhile (fun z => z.id != y.id) (A ++ y :: B) := List.takeWhile_cons_of_pos hne'
    rw [hdx, htx, h1, h2]
    exact ⟨rfl, rfl⟩

/-- `GetNonGittufParentReferenceUpdaterEntryForEntry` over any chain, for an entry of the chain -/
theorem ngparent_refines (y : LEntry) (s : Store) (x : LEntry) (l : List LEntry) (e : RErr)
    (htip : getLatestEntry s = .ok x) (hst : Steps s x l e) (hback : AnnBackward (x :: l))
    (hy : y ∈ x :: l) :
    getNonGittufParent y s = nonGittufParentSpec y.id (x :: l) e := by
  have hxs := getLatest_stored htip
  have hfuel := hst.length_lt_fuel hxs
  have hnd := hst.ids_nodup hxs
  obtain ⟨A, B, hsplit⟩ := List.append_of_mem hy
  rw [hsplit] at hnd
  obtain ⟨hdw, _⟩ := dropWhile_id_split A y B hnd
  have hdw' : List.dropWhile (fun z => z.id != y.id) (x :: l) = y :: B := by rw [hsplit]; exact hdw
  unfold getNonGittufParent nonGittufParentSpec
  simp only [htip]
  rw [hdw']
  simp only
  have hsty : Steps s y B e := Steps.of_split hsplit.symm hst
  cases B with
  | nil =>
    rw [hsty.nil_parent]
    simp
  | cons par B' =>
    rw [hsty.head_parent]
    simp only
    rw [walk_eq s (ngSkipWalker par.id) hst s.fuel [] hfuel]
    have h1 := ngSkip_eq par.id e l [] x
    rw [show annsOf [] = [] from rfl] at h1
    rw [h1]
    -- `l` from the parent on
    have hl : ∃ A', l = A' ++ par :: B' ∧ x :: A' = A ++ [y] := by
      cases A with
      | nil =>
        simp only [List.nil_append, List.cons.injEq] at hsplit
        exact ⟨[], by simp [hsplit.2], by simp [hsplit.1]⟩
      | cons a A2 =>
        simp only [List.cons_append, List.cons.injEq] at hsplit
        exact ⟨A2 ++ [y], by simp [hsplit.2], by simp [hsplit.1]⟩
    obtain ⟨A', hlA, hxA⟩ := hl
    have hndl : ((A' ++ par :: B').map (·.id)).Nodup := by
      have : ((x :: l).map (·.id)).Nodup := hst.ids_nodup hxs
      rw [List.map_cons, List.nodup_cons] at this
      rw [← hlA]; exact this.2
    obtain ⟨hd2, ht2⟩ := dropWhile_id_split A' par B' hndl
    rw [hlA, hd2, ht2]
    simp only
    have hstp : Steps s par B' e := hsty.tail
    have hlen : B'.length < s.fuel := by
      have := congrArg List.length hlA
      simp only [List.length_append, List.length_cons] at this
      omega
    rw [walk_eq s ngMainWalker hstp s.fuel _ hlen]
    have hlog : x :: l = ([] ++ x :: A') ++ par :: B' := by simp [hlA]
    rw [ngMain_eq e (x :: l) hback B' _ par hlog, hlA]
    cases List.find? isNonGittufUpdater (par :: B') <;> rfl



theorem qualifies_nonGittuf (log : List LEntry) (z : LEntry) :
    ({ nonGittuf := true } : Opts).qualifies log z = isNonGittufUpdater z := by
  obtain ⟨i, e⟩ := z
  cases e <;> simp [Opts.qualifies, isNonGittufUpdater, Entry.refName?]

theorem ngu_target {z : LEntry} (h : isNonGittufUpdater z = true) : ∃ t, z.e.target? = some t := by
  obtain ⟨i, e⟩ := z
  cases e <;> simp_all [isNonGittufUpdater, Entry.refName?, Entry.target?]

/-- `latestSpec` with only the non-gittuf condition is `find?` -/
theorem latestSpec_nonGittuf (log : List LEntry) (e : RErr) :
    latestSpec { nonGittuf := true } log e =
      match log.find? isNonGittufUpdater with
      | some z => .ok (z, annotationsOn log z.id)
      | none => .error e := by
  unfold latestSpec
  cases log with
  | nil => simp [Opts.staticBad]
  | cons tip rest =>
    have hq : (({ nonGittuf := true } : Opts).qualifies (tip :: rest)) = isNonGittufUpdater := by
      funext z; exact qualifies_nonGittuf _ z
    simp only [Opts.staticBad, Opts.numBad, Opts.hasBefore, untilWindow, hq]
    simp
    cases List.find? isNonGittufUpdater (tip :: rest) <;> rfl

/-- the commit loop over the list of non-gittuf updaters older than `cur` -/
def commitLoopL (knowsE : LEntry → Bool) (e : RErr) : LEntry → List LEntry → Except RErr LEntry
  | cur, [] => if e == .notFound then .ok cur else .error e
  | cur, z :: rest => if !knowsE z then .ok cur else commitLoopL knowsE e z rest

theorem commitLoopL_eq (knowsE : LEntry → Bool) (e : RErr) : ∀ (rest : List LEntry) (f : LEntry),
    commitLoopL knowsE e f rest =
      (let run := rest.takeWhile knowsE
       let res := (f :: run).getLast?.getD f
       if run.length < rest.length then .ok res
       else if e == .notFound then .ok res else .error e) := by
  intro rest
  induction rest with
  | nil => intro f; simp [commitLoopL]
  | cons z rest ih =>
    intro f
    unfold commitLoopL
    by_cases hk : knowsE z = true
    · simp only [hk, Bool.not_true, Bool.false_eq_true, if_false, ih z, List.takeWhile_cons_of_pos]
      simp only [List.length_cons, Nat.add_lt_add_iff_right]
      have : (f :: z :: List.takeWhile knowsE rest).getLast?.getD f =
          (z :: List.takeWhile knowsE rest).getLast?.getD z := by
        simp [List.getLast?_cons_cons]
        cases h : (List.takeWhile knowsE rest).getLast? <;> simp [List.getLast?_cons, h]
      rw [this]
    · simp [hk]


theorem filter_nil_of_find_none {p : LEntry → Bool} {l : List LEntry} (h : l.find? p = none) : l.filter p = [] := by
  rw [List.filter_eq_nil_iff]
  intro a ha hp
  have := List.find?_eq_none.mp h a ha
  exact this hp

/-- the loop of `GetFirstReferenceUpdaterEntryForCommit` from an entry `z` of the chain -/
theorem forCommitLoop_eq (knows : Id → Id → Bool) (c : Id) (s : Store) (x : LEntry) (l : List LEntry) (e : RErr)
    (htip : getLatestEntry s = .ok x) (hst : Steps s x l e) (hback : AnnBackward (x :: l)) :
    ∀ (fuel : Nat) (A : List LEntry) (z : LEntry) (B : List LEntry), x :: l = A ++ z :: B →
      (B.filter isNonGittufUpdater).length < fuel →
      forCommitLoop knows c s fuel (z, annotationsOn (x :: l) z.id) =
        match commitLoopL (knowsEntry knows c) e z
            (B.filter isNonGittufUpdater) with
        | .ok r => .ok (r, annotationsOn (x :: l) r.id)
        | .error er => .error er := by
  have hnd := hst.ids_nodup (getLatest_stored htip)
  intro fuel
  induction fuel with
  | zero => intro A z B _ h; simp at h
  | succ n ih =>
    intro A z B hsplit hlen
    have hz : z ∈ x :: l := by rw [hsplit]; simp
    unfold forCommitLoop
    simp only
    rw [ngparent_refines z s x l e htip hst hback hz]
    unfold nonGittufParentSpec
    have hnd' := hnd
    rw [hsplit] at hnd'
    have hdw : List.dropWhile (fun y => y.id != z.id) (x :: l) = z :: B := by
      rw [hsplit]; exact (dropWhile_id_split A z B hnd').1
    rw [hdw]
    simp only
    cases hf : B.find? isNonGittufUpdater with
    | none =>
      rw [filter_nil_of_find_none hf]
      cases e <;> simp [commitLoopL]
    | some z' =>
      simp only
      obtain ⟨hpz, B1, B2, hB, hB1⟩ := List.find?_eq_some_iff_append.mp hf
      have hfil : B.filter isNonGittufUpdater = z' :: B2.filter isNonGittufUpdater := by
        rw [hB, List.filter_append, List.filter_cons_of_pos hpz]
        have : B1.filter isNonGittufUpdater = [] := by
          rw [List.filter_eq_nil_iff]
          intro a ha
          have := hB1 a ha
          simpa using this
        rw [this, List.nil_append]
      obtain ⟨t, ht⟩ := ngu_target hpz
      rw [hfil]
      have hke : knowsEntry knows c z' = knows t c := by simp [knowsEntry, ht]
      simp only [ht, commitLoopL, hke]
      by_cases hk : knows t c = true
      · simp only [hk, Bool.not_true, Bool.false_eq_true, if_false]
        have hsplit' : x :: l = (A ++ z :: B1) ++ z' :: B2 := by rw [hsplit, hB]; simp
        have hlen' : (B2.filter isNonGittufUpdater).length < n := by
          rw [hfil] at hlen; simp only [List.length_cons] at hlen; omega
        exact ih (A ++ z :: B1) z' B2 hsplit' hlen'
      · simp [hk]

/-- `GetFirstReferenceUpdaterEntryForCommit` over any chain -/
theorem forCommit_refines (knows : Id → Id → Bool) (c : Id) (s : Store) (x : LEntry) (l : List LEntry) (e : RErr)
    (htip : getLatestEntry s = .ok x) (hst : Steps s x l e) (hback : AnnBackward (x :: l)) :
    getFirstReferenceUpdaterEntryForCommit knows c s = forCommitSpec knows c (x :: l) e := by
  have hfuel := hst.length_lt_fuel (getLatest_stored htip)
  unfold getFirstReferenceUpdaterEntryForCommit forCommitSpec
  rw [latest_asis_eq _ s rfl (Or.inl rfl), latest_refines _ s x l e htip hst hback, latestSpec_nonGittuf]
  cases hf : (x :: l).find? isNonGittufUpdater with
  | none =>
    rw [filter_nil_of_find_none hf]
    cases e <;> simp
  | some f =>
    simp only
    obtain ⟨hpf, A, B, hsplit, hA⟩ := List.find?_eq_some_iff_append.mp hf
    have hfil : (x :: l).filter isNonGittufUpdater = f :: B.filter isNonGittufUpdater := by
      rw [hsplit, List.filter_append, List.filter_cons_of_pos hpf]
      have : A.filter isNonGittufUpdater = [] := by
        rw [List.filter_eq_nil_iff]
        intro a ha
        have := hA a ha
        simpa using this
      rw [this, List.nil_append]
    obtain ⟨t, ht⟩ := ngu_target hpf
    have hke : knowsEntry knows c f = knows t c := by simp [knowsEntry, ht]
    rw [hfil]
    simp only [ht, hke]
    by_cases hk : knows t c = true
    · simp only [hk, Bool.not_true, Bool.false_eq_true, if_false]
      have hlen : (B.filter isNonGittufUpdater).length < s.fuel := by
        have h1 := List.length_filter_le isNonGittufUpdater B
        have h2 := congrArg List.length hsplit
        simp only [List.length_append, List.length_cons] at h2
        omega
      rw [forCommitLoop_eq knows c s x l e htip hst hback s.fuel A f B hsplit hlen, commitLoopL_eq]
      simp only
      generalize List.takeWhile (knowsEntry knows c) (List.filter isNonGittufUpdater B) = run
      by_cases h1 : run.length < (List.filter isNonGittufUpdater B).length
      · simp [h1]
      · by_cases h2 : (e == RErr.notFound) = true <;> simp [h1, h2]
    · simp [hk]

end Gittuf.RSL
