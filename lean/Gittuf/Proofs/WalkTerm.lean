import Gittuf.Proofs.Walk
/-
Termination of the delegation walk (the fuel of `findVerifiers` always suffices),
and emptiness of its result (C06).
-/
namespace Gittuf.Walk

theorem file?_of_ne (P : Policy) (n : String) (h : n ≠ targetsName) :
    P.file? n = P.files.lookup n := by
  unfold Policy.file?
  have h' : (n == targetsName) = false := by simpa using h
  rw [h']
  rfl

theorem ne_targets_of_not_seen_t (seen : List String) (n : String) (hs : targetsName ∈ seen)
    (hn : seen.contains n = false) : n ≠ targetsName := by
  intro h
  subst h
  have : seen.contains targetsName = true := by simpa using hs
  rw [this] at hn
  cases hn

/-- entering a file strictly pays for the new group -/
theorem unseenW_enter_file (P : Policy) (seen : List String) (n : String) (f : RuleFile)
    (hs : targetsName ∈ seen) (hn : seen.contains n = false) (hf : P.file? n = some f) :
    unseenW fileWeight (n :: seen) P.files + (f.rules.length + 2) ≤ unseenW fileWeight seen P.files := by
  have hne := ne_targets_of_not_seen_t seen n hs hn
  rw [file?_of_ne P n hne] at hf
  have := unseenW_enter fileWeight seen n f P.files hn hf
  simpa [fileWeight] using this

theorem walk_fuel_suffices (m : Rule → Bool) (P : Policy) :
    ∀ (fuel : Nat) (cur : List Rule) (groups : List (List Rule)) (seen : List String) (allP : PMap)
      (acc : List WVerifier), targetsName ∈ seen → walkMeasure P cur groups seen < fuel →
      (walk m P fuel cur groups seen allP acc).isSome = true := by
  intro fuel
  induction fuel with
  | zero => intro _ _ _ _ _ _ h; omega
  | succ k ih =>
    intro cur groups seen allP acc hs hm
    match cur, groups with
    | [], [] => simp only [walk, Option.isSome_some]
    | [], g :: gs =>
      simp only [walk]
      apply ih _ _ _ _ _ hs
      simp only [walkMeasure, List.map_cons, List.sum_cons, List.length_nil] at hm ⊢
      omega
    | [a], [] => simp only [walk, Option.isSome_some]
    | [a], g :: gs =>
      simp only [walk]
      apply ih _ _ _ _ _ hs
      simp only [walkMeasure, List.map_cons, List.sum_cons, List.length_cons, List.length_nil] at hm ⊢
      omega
    | d :: x :: xs, groups =>
      have hstep : walkMeasure P (x :: xs) groups seen < k := by
        simp only [walkMeasure, List.length_cons] at hm ⊢
        omega
      simp only [walk]
      by_cases hmd : m d = true
      · simp only [hmd, if_true]
        by_cases hc : seen.contains d.name = true
        · simp only [hc, if_true]
          exact ih _ _ _ _ _ hs hstep
        · have hc' : seen.contains d.name = false := by simpa using hc
          simp only [hc', Bool.false_eq_true, if_false]
          cases hf : P.file? d.name with
          | none => exact ih _ _ _ _ _ hs hstep
          | some f =>
            have hw := unseenW_enter_file P seen d.name f hs hc' hf
            have hs' : targetsName ∈ d.name :: seen := List.mem_cons_of_mem _ hs
            by_cases ht : d.terminating = true
            · simp only [ht, if_true]
              apply ih _ _ _ _ _ hs'
              simp only [walkMeasure, List.map_cons, List.sum_cons, List.length_cons,
                List.length_nil] at hm ⊢
              omega
            · simp only [ht, Bool.false_eq_true, if_false]
              apply ih _ _ _ _ _ hs'
              simp only [walkMeasure, List.map_cons, List.sum_cons, List.length_cons] at hm ⊢
              omega
      · simp only [hmd, Bool.false_eq_true, if_false]
        exact ih _ _ _ _ _ hs hstep

theorem findVerifiers_ne_outOfFuel (m : Rule → Bool) (P : Policy) :
    findVerifiers m P ≠ .error .outOfFuel := by
  unfold findVerifiers
  cases hp : P.primary with
  | none => simp only; intro h; cases h
  | some f =>
    simp only
    have h := walk_fuel_suffices m P (walkMeasure P [] [f.rules] [targetsName] + 1) [] [f.rules]
      [targetsName] f.principals [] (List.mem_singleton.mpr rfl) (Nat.lt_succ_self _)
    cases hw : walk m P (walkMeasure P [] [f.rules] [targetsName] + 1) [] [f.rules] [targetsName]
        f.principals [] with
    | none => rw [hw] at h; cases h
    | some vs => simp only; intro h; cases h

theorem findVerifiers_none (m : Rule → Bool) (P : Policy) (hp : P.primary = none) :
    findVerifiers m P = .error .metadataNotFound := by
  unfold findVerifiers
  rw [hp]

/-- with a primary file the result is the result of the walk -/
theorem findVerifiers_some (m : Rule → Bool) (P : Policy) (f : RuleFile) (hp : P.primary = some f) :
    ∃ vs, findVerifiers m P = .ok vs ∧
      walk m P (walkMeasure P [] [f.rules] [targetsName] + 1) [] [f.rules] [targetsName]
        f.principals [] = some vs := by
  have h := walk_fuel_suffices m P (walkMeasure P [] [f.rules] [targetsName] + 1) [] [f.rules]
    [targetsName] f.principals [] (List.mem_singleton.mpr rfl) (Nat.lt_succ_self _)
  cases hw : walk m P (walkMeasure P [] [f.rules] [targetsName] + 1) [] [f.rules] [targetsName]
      f.principals [] with
  | none => rw [hw] at h; cases h
  | some vs =>
    refine ⟨vs, ?_, rfl⟩
    unfold findVerifiers
    rw [hp]
    simp only [hw]

theorem findVerifiers_ok_iff (m : Rule → Bool) (P : Policy) :
    (∃ vs, findVerifiers m P = .ok vs) ↔ P.primary.isSome = true := by
  constructor
  · rintro ⟨vs, h⟩
    cases hp : P.primary with
    | none => rw [findVerifiers_none m P hp] at h; cases h
    | some f => rfl
  · intro h
    cases hp : P.primary with
    | none => rw [hp] at h; cases h
    | some f =>
      obtain ⟨vs, hv, _⟩ := findVerifiers_some m P f hp
      exact ⟨vs, hv⟩

/-! ### Emptiness of the result -/

theorem active_nil : active [] = [] := rfl
theorem active_single (a : Rule) : active [a] = [] := rfl
theorem active_cons_cons (d x : Rule) (xs : List Rule) :
    active (d :: x :: xs) = d :: active (x :: xs) := rfl

/-- the accumulator only grows -/
theorem walk_prefix (m : Rule → Bool) (P : Policy) :
    ∀ (fuel : Nat) (cur : List Rule) (groups : List (List Rule)) (seen : List String) (allP : PMap)
      (acc R : List WVerifier), walk m P fuel cur groups seen allP acc = some R →
      ∃ t, R = acc ++ t := by
  intro fuel
  induction fuel with
  | zero => intro _ _ _ _ _ _ h; simp only [walk] at h; cases h
  | succ k ih =>
    intro cur groups seen allP acc R h
    match cur, groups with
    | [], [] =>
      simp only [walk, Option.some.injEq] at h
      exact ⟨[], by rw [← h, List.append_nil]⟩
    | [], g :: gs =>
      simp only [walk] at h
      exact ih _ _ _ _ _ _ h
    | [a], [] =>
      simp only [walk, Option.some.injEq] at h
      exact ⟨[], by rw [← h, List.append_nil]⟩
    | [a], g :: gs =>
      simp only [walk] at h
      exact ih _ _ _ _ _ _ h
    | d :: x :: xs, groups =>
      simp only [walk] at h
      by_cases hmd : m d = true
      · simp only [hmd, if_true] at h
        have key : ∃ t, R = (acc ++ [mkVerifier d allP]) ++ t := by
          by_cases hc : seen.contains d.name = true
          · simp only [hc, if_true] at h
            exact ih _ _ _ _ _ _ h
          · have hc' : seen.contains d.name = false := by simpa using hc
            simp only [hc', Bool.false_eq_true, if_false] at h
            cases hf : P.file? d.name with
            | none =>
              rw [hf] at h
              exact ih _ _ _ _ _ _ h
            | some f =>
              rw [hf] at h
              by_cases ht : d.terminating = true
              · simp only [ht, if_true] at h
                exact ih _ _ _ _ _ _ h
              · simp only [ht, Bool.false_eq_true, if_false] at h
                exact ih _ _ _ _ _ _ h
        obtain ⟨t, ht⟩ := key
        exact ⟨[mkVerifier d allP] ++ t, by rw [ht, List.append_assoc]⟩
      · simp only [hmd, Bool.false_eq_true, if_false] at h
        exact ih _ _ _ _ _ _ h

/-- in the matching branch the result strictly extends the accumulator -/
theorem walk_prefix_match (m : Rule → Bool) (P : Policy) (k : Nat) (d x : Rule) (xs : List Rule)
    (groups : List (List Rule)) (seen : List String) (allP : PMap) (acc R : List WVerifier)
    (hmd : m d = true) (h : walk m P (k + 1) (d :: x :: xs) groups seen allP acc = some R) :
    ∃ t, t ≠ [] ∧ R = acc ++ t := by
  simp only [walk] at h
  simp only [hmd, if_true] at h
  have key : ∃ t, R = (acc ++ [mkVerifier d allP]) ++ t := by
    by_cases hc : seen.contains d.name = true
    · simp only [hc, if_true] at h
      exact walk_prefix m P _ _ _ _ _ _ _ h
    · have hc' : seen.contains d.name = false := by simpa using hc
      simp only [hc', Bool.false_eq_true, if_false] at h
      cases hf : P.file? d.name with
      | none =>
        rw [hf] at h
        exact walk_prefix m P _ _ _ _ _ _ _ h
      | some f =>
        rw [hf] at h
        by_cases ht : d.terminating = true
        · simp only [ht, if_true] at h
          exact walk_prefix m P _ _ _ _ _ _ _ h
        · simp only [ht, Bool.false_eq_true, if_false] at h
          exact walk_prefix m P _ _ _ _ _ _ _ h
  obtain ⟨t, ht⟩ := key
  exact ⟨[mkVerifier d allP] ++ t, by simp, by rw [ht, List.append_assoc]⟩

/-- (a) nothing matches in the pending rules: nothing is added -/
theorem walk_no_match (m : Rule → Bool) (P : Policy) :
    ∀ (fuel : Nat) (cur : List Rule) (groups : List (List Rule)) (seen : List String) (allP : PMap)
      (acc R : List WVerifier), walk m P fuel cur groups seen allP acc = some R →
      (∀ r ∈ active cur, m r = false) → (∀ g ∈ groups, ∀ r ∈ active g, m r = false) →
      R = acc := by
  intro fuel
  induction fuel with
  | zero => intro _ _ _ _ _ _ h; simp only [walk] at h; cases h
  | succ k ih =>
    intro cur groups seen allP acc R h hcur hgr
    match cur, groups with
    | [], [] =>
      simp only [walk, Option.some.injEq] at h
      exact h.symm
    | [], g :: gs =>
      simp only [walk] at h
      exact ih _ _ _ _ _ _ h (hgr g (List.mem_cons_self ..))
        (fun g' hg' => hgr g' (List.mem_cons_of_mem _ hg'))
    | [a], [] =>
      simp only [walk, Option.some.injEq] at h
      exact h.symm
    | [a], g :: gs =>
      simp only [walk] at h
      exact ih _ _ _ _ _ _ h (hgr g (List.mem_cons_self ..))
        (fun g' hg' => hgr g' (List.mem_cons_of_mem _ hg'))
    | d :: x :: xs, groups =>
      simp only [walk] at h
      have hmd : m d = false := hcur d (by rw [active_cons_cons]; exact List.mem_cons_self ..)
      simp only [hmd, Bool.false_eq_true, if_false] at h
      exact ih _ _ _ _ _ _ h
        (fun r hr => hcur r (by rw [active_cons_cons]; exact List.mem_cons_of_mem _ hr)) hgr

/-- (b) something matches in the pending rules: something is added -/
theorem walk_some_match (m : Rule → Bool) (P : Policy) :
    ∀ (fuel : Nat) (cur : List Rule) (groups : List (List Rule)) (seen : List String) (allP : PMap)
      (acc R : List WVerifier), walk m P fuel cur groups seen allP acc = some R →
      ((∃ r ∈ active cur, m r = true) ∨ (∃ g ∈ groups, ∃ r ∈ active g, m r = true)) →
      ∃ t, t ≠ [] ∧ R = acc ++ t := by
  intro fuel
  induction fuel with
  | zero => intro _ _ _ _ _ _ h; simp only [walk] at h; cases h
  | succ k ih =>
    intro cur groups seen allP acc R h hex
    have pop : ∀ (g : List Rule) (gs : List (List Rule)),
        (∃ g' ∈ g :: gs, ∃ r ∈ active g', m r = true) →
        ((∃ r ∈ active g, m r = true) ∨ (∃ g' ∈ gs, ∃ r ∈ active g', m r = true)) := by
      rintro g gs ⟨g', hg', hr⟩
      rcases List.mem_cons.mp hg' with rfl | hg'
      · exact Or.inl hr
      · exact Or.inr ⟨g', hg', hr⟩
    match cur, groups with
    | [], [] =>
      rcases hex with ⟨r, hr, _⟩ | ⟨g, hg, _⟩
      · rw [active_nil] at hr; cases hr
      · cases hg
    | [], g :: gs =>
      simp only [walk] at h
      rcases hex with ⟨r, hr, _⟩ | hex
      · rw [active_nil] at hr; cases hr
      · exact ih _ _ _ _ _ _ h (pop g gs hex)
    | [a], [] =>
      rcases hex with ⟨r, hr, _⟩ | ⟨g, hg, _⟩
      · rw [active_single] at hr; cases hr
      · cases hg
    | [a], g :: gs =>
      simp only [walk] at h
      rcases hex with ⟨r, hr, _⟩ | hex
      · rw [active_single] at hr; cases hr
      · exact ih _ _ _ _ _ _ h (pop g gs hex)
    | d :: x :: xs, groups =>
      by_cases hmd : m d = true
      · exact walk_prefix_match m P k d x xs groups seen allP acc R hmd h
      · simp only [walk] at h
        simp only [hmd, Bool.false_eq_true, if_false] at h
        apply ih _ _ _ _ _ _ h
        rcases hex with ⟨r, hr, hmr⟩ | hex
        · rw [active_cons_cons] at hr
          rcases List.mem_cons.mp hr with rfl | hr
          · exact absurd hmr hmd
          · exact Or.inl ⟨r, hr, hmr⟩
        · exact Or.inr hex

theorem findVerifiers_nil_iff (m : Rule → Bool) (P : Policy) (f : RuleFile) (hp : P.primary = some f)
    (vs : List WVerifier) (h : findVerifiers m P = .ok vs) :
    vs = [] ↔ ∀ r ∈ active f.rules, m r = false := by
  obtain ⟨vs', hv, hw⟩ := findVerifiers_some m P f hp
  rw [h] at hv
  cases hv
  constructor
  · intro hnil r hr
    cases hmr : m r with
    | false => rfl
    | true =>
      obtain ⟨t, ht, hR⟩ := walk_some_match m P _ _ _ _ _ _ _ hw
        (Or.inr ⟨f.rules, List.mem_singleton.mpr rfl, r, hr, hmr⟩)
      rw [hnil, List.nil_append] at hR
      exact absurd hR.symm ht
  · intro hall
    refine walk_no_match m P _ _ _ _ _ _ _ hw ?_ ?_
    · intro r hr; rw [active_nil] at hr; cases hr
    · intro g hg r hr
      rw [List.mem_singleton.mp hg] at hr
      exact hall r hr

/-! ### Spec side -/

theorem consultedIn_mem_active (P : Policy) (m : Rule → Bool) (F : RuleFile) (r : Rule)
    (h : ConsultedIn P m F r) : r ∈ active F.rules := by
  obtain ⟨pre, post, hF, hpost, _⟩ := h
  unfold active
  rw [hF, List.dropLast_append_of_ne_nil (by simp), List.dropLast_cons_of_ne_nil hpost]
  exact List.mem_append_right _ (List.mem_cons_self ..)

/-- the first matching non-trailing rule -/
theorem first_match (m : Rule → Bool) :
    ∀ (l : List Rule), (∃ r ∈ active l, m r = true) →
      ∃ pre r post, l = pre ++ r :: post ∧ post ≠ [] ∧ m r = true ∧ ∀ r' ∈ pre, m r' = false := by
  intro l
  induction l with
  | nil => rintro ⟨r, hr, _⟩; rw [active_nil] at hr; cases hr
  | cons d tl ih =>
    cases tl with
    | nil => rintro ⟨r, hr, _⟩; rw [active_single] at hr; cases hr
    | cons x xs =>
      rintro ⟨r, hr, hmr⟩
      by_cases hmd : m d = true
      · exact ⟨[], d, x :: xs, rfl, by simp, hmd, by intro r' hr'; cases hr'⟩
      · rw [active_cons_cons] at hr
        rcases List.mem_cons.mp hr with rfl | hr
        · exact absurd hmr hmd
        · obtain ⟨pre, r0, post, hl, hpost, hm0, hpre⟩ := ih ⟨r, hr, hmr⟩
          refine ⟨d :: pre, r0, post, by rw [hl, List.cons_append], hpost, hm0, ?_⟩
          intro r' hr'
          rcases List.mem_cons.mp hr' with rfl | hr'
          · simpa using hmd
          · exact hpre r' hr'

theorem entered_primary_or_match (P : Policy) (m : Rule → Bool) (F : RuleFile) (h : Entered P m F) :
    P.primary = some F ∨ ∃ f, P.primary = some f ∧ ∃ r ∈ active f.rules, m r = true := by
  induction h with
  | primary hp => exact Or.inl hp
  | deleg _ hc hmr _ ih =>
    rcases ih with hp | hex
    · exact Or.inr ⟨_, hp, _, consultedIn_mem_active P m _ _ hc, hmr⟩
    · exact Or.inr hex

theorem consulted_match_iff_primary (P : Policy) (m : Rule → Bool) :
    (∃ F r, Consulted P m F r ∧ m r = true) ↔
      ∃ f, P.primary = some f ∧ ∃ r ∈ active f.rules, m r = true := by
  constructor
  · rintro ⟨F, r, ⟨hE, hC⟩, hmr⟩
    rcases entered_primary_or_match P m F hE with hp | hex
    · exact ⟨F, hp, r, consultedIn_mem_active P m F r hC, hmr⟩
    · exact hex
  · rintro ⟨f, hp, hex⟩
    obtain ⟨pre, r, post, hl, hpost, hmr, hpre⟩ := first_match m f.rules hex
    refine ⟨f, r, ⟨Entered.primary hp, pre, post, hl, hpost, ?_⟩, hmr⟩
    intro r' hr' hcut
    have := hpre r' hr'
    rw [hcut.1] at this
    cases this

theorem unprotected_iff_aux (m : Rule → Bool) (P : Policy) (vs : List WVerifier)
    (h : findVerifiers m P = .ok vs) :
    vs = [] ↔ ¬ ∃ F r, Consulted P m F r ∧ m r = true := by
  have hsome := (findVerifiers_ok_iff m P).mp ⟨vs, h⟩
  cases hp : P.primary with
  | none => rw [hp] at hsome; cases hsome
  | some f =>
    rw [findVerifiers_nil_iff m P f hp vs h, consulted_match_iff_primary]
    constructor
    · rintro hall ⟨f', hp', r, hr, hmr⟩
      rw [hp] at hp'
      cases hp'
      rw [hall r hr] at hmr
      cases hmr
    · intro hno r hr
      cases hmr : m r with
      | false => rfl
      | true => exact absurd ⟨f, hp, r, hr, hmr⟩ hno

end Gittuf.Walk
