import Gittuf.Spec.C13
/-
Helper lemmas for C13 (policy metadata mutators).
-/
namespace Gittuf.Meta

/-! ### sets as duplicate-free lists -/

theorem mem_dedup {a : String} : ∀ {l : List String}, a ∈ dedup l ↔ a ∈ l
  | [] => by simp [dedup]
  | x :: xs => by
    have ih := @mem_dedup a xs
    unfold dedup
    split
    · rename_i hx
      rw [ih, List.mem_cons]
      constructor
      · exact Or.inr
      · rintro (h | h)
        · exact h ▸ hx
        · exact h
    · simp [ih]

theorem nodup_dedup : ∀ l : List String, (dedup l).Nodup
  | [] => by simp [dedup]
  | x :: xs => by
    unfold dedup
    split
    · exact nodup_dedup xs
    · rename_i hx
      exact List.nodup_cons.2 ⟨fun h => hx (mem_dedup.1 h), nodup_dedup xs⟩

theorem dedup_of_nodup : ∀ {l : List String}, l.Nodup → dedup l = l
  | [], _ => rfl
  | x :: xs, h => by
    have h' := List.nodup_cons.1 h
    unfold dedup
    rw [if_neg h'.1, dedup_of_nodup h'.2]

theorem length_dedup_le : ∀ l : List String, (dedup l).length ≤ l.length
  | [] => by simp [dedup]
  | x :: xs => by
    have ih := length_dedup_le xs
    unfold dedup
    split
    · simp; omega
    · simp; omega

theorem nodupB_iff : ∀ {l : List String}, nodupB l = true ↔ l.Nodup
  | [] => by simp [nodupB]
  | x :: xs => by
    have ih := @nodupB_iff xs
    simp [nodupB, List.nodup_cons, ih]

/-! ### names -/

theorem reserved_allow : reserved allowName = true := by decide

theorem ne_allow_of_not_reserved {n : String} (h : reserved n = false) : n ≠ allowName := by
  intro hn
  rw [hn, reserved_allow] at h
  cases h

/-! ### the shape "user rules, then the allow rule" -/

/-- invariant scheme: the rule list is `init ++ [allowRule]` and every rule of `init` satisfies `Q` -/
def GenInv (Q : List String → Rule → Prop) (m : TargetsMeta) : Prop :=
  ∃ init, m.rules = init ++ [allowRule] ∧ ∀ r ∈ init, Q m.ids r

/-- what the preservation proofs need to know about the per-rule predicate -/
structure QOK (Q : List String → Rule → Prop) : Prop where
  name : ∀ d r, Q d r → reserved r.name = false
  mono : ∀ d d' r, (∀ p ∈ r.principals, p ∈ d → p ∈ d') → Q d r → Q d' r

/-- what an accepted AddRule/UpdateRule must establish for the rule it writes -/
def ArgsOK (Q : List String → Rule → Prop) (m : TargetsMeta) : TOp → Prop
  | .addRule n ids _ t | .updateRule n ids _ t =>
    m.checkRuleArgs n ids t = none →
      ∀ r : Rule, reserved r.name = false → r.principals = dedup ids → r.threshold = t → Q m.ids r
  | _ => True

theorem checkRuleArgs_none {m : TargetsMeta} {n : String} {ids : List String} {t : Int}
    (h : m.checkRuleArgs n ids t = none) :
    reserved n = false ∧ (∀ p ∈ ids, p ∈ m.ids) ∧ 1 ≤ t ∧ t ≤ ((dedup ids).length : Int) := by
  unfold TargetsMeta.checkRuleArgs at h
  split at h
  · cases h
  · rename_i h1
    split at h
    · cases h
    · rename_i h2
      split at h
      · cases h
      · rename_i h3
        split at h
        · cases h
        · rename_i h4
          refine ⟨by simpa using h1, ?_, by omega, by omega⟩
          intro p hp
          have h2' : ids.all m.defined = true := by simpa using h2
          have := List.all_eq_true.1 h2' p hp
          simpa [TargetsMeta.defined] using this

theorem checkRuleArgs_ne_panic (m : TargetsMeta) (n : String) (ids : List String) (t : Int) :
    m.checkRuleArgs n ids t ≠ some .panic := by
  unfold TargetsMeta.checkRuleArgs
  repeat' split
  all_goals simp

@[simp] theorem ids_setRules (m : TargetsMeta) (rs : List Rule) : ({ m with rules := rs } : TargetsMeta).ids = m.ids := rfl

theorem mem_ids_iff {m : TargetsMeta} {p : String} : p ∈ m.ids ↔ ∃ q ∈ m.principals, q.id = p := by
  simp [TargetsMeta.ids]

/-! ### rule mutators -/

theorem addRule_gen {Q} (m : TargetsMeta) (n : String) (ids pats : List String) (t : Int)
    (h : GenInv Q m) (ha : ArgsOK Q m (.addRule n ids pats t)) :
    GenInv Q (m.addRule n ids pats t).st := by
  obtain ⟨init, hr, hq⟩ := h
  unfold TargetsMeta.addRule
  cases hc : m.checkRuleArgs n ids t with
  | some e => exact ⟨init, hr, hq⟩
  | none =>
    have hne : m.rules.isEmpty = false := by simp [hr]
    simp only [hne, Bool.false_eq_true, if_false, TargetsMeta.done]
    refine ⟨init ++ [{ name := n, patterns := pats, principals := dedup ids, threshold := t, terminating := false }], ?_, ?_⟩
    · simp [hr]
    · intro r hrm
      rw [List.mem_append, List.mem_singleton] at hrm
      rcases hrm with hrm | hrm
      · exact hq r hrm
      · subst hrm
        exact ha hc _ (checkRuleArgs_none hc).1 rfl rfl

theorem updateGo_init (n : String) (pats ids : List String) (t : Int) :
    ∀ (init rest : List Rule), (∀ r ∈ init, r.name ≠ allowName) →
      TargetsMeta.updateGo n pats ids t (init ++ allowRule :: rest) =
        init.map (fun r => if r.name ≠ n then r else { r with patterns := pats, principals := dedup ids, threshold := t })
  | [], rest, _ => by simp [TargetsMeta.updateGo, allowRule]
  | r :: rs, rest, h => by
    have h1 : r.name ≠ allowName := h r (by simp)
    have ih := updateGo_init n pats ids t rs rest (fun x hx => h x (by simp [hx]))
    simp only [List.cons_append, TargetsMeta.updateGo, if_neg h1, List.map_cons]
    split
    · rw [ih]
    · rw [ih]

theorem updateRule_gen {Q} (hQ : QOK Q) (m : TargetsMeta) (n : String) (ids pats : List String) (t : Int)
    (h : GenInv Q m) (ha : ArgsOK Q m (.updateRule n ids pats t)) :
    GenInv Q (m.updateRule n ids pats t).st := by
  obtain ⟨init, hr, hq⟩ := h
  unfold TargetsMeta.updateRule
  cases hc : m.checkRuleArgs n ids t with
  | some e => exact ⟨init, hr, hq⟩
  | none =>
    simp only [TargetsMeta.done]
    have hgo := updateGo_init n pats ids t init [] (fun r hrm => ne_allow_of_not_reserved (hQ.name _ _ (hq r hrm)))
    refine ⟨_, by rw [hr, hgo], ?_⟩
    intro r hrm
    rw [List.mem_map] at hrm
    obtain ⟨r0, hr0, rfl⟩ := hrm
    split
    · exact hq r0 hr0
    · exact ha hc _ (hQ.name m.ids r0 (hq r0 hr0)) rfl rfl

theorem removeRule_gen {Q} (_hQ : QOK Q) (m : TargetsMeta) (n : String) (h : GenInv Q m) :
    GenInv Q (m.removeRule n).st := by
  obtain ⟨init, hr, hq⟩ := h
  unfold TargetsMeta.removeRule
  split
  · exact ⟨init, hr, hq⟩
  · rename_i hn
    have hn' : allowRule.name ≠ n := by
      intro h; apply hn; rw [← h]; exact reserved_allow
    refine ⟨init.filter (fun r => r.name != n), ?_, ?_⟩
    · simp [TargetsMeta.done, hr, List.filter_append, hn']
    · intro r hrm
      exact hq r (List.mem_filter.1 hrm).1

theorem mem_userRuleNames {m : TargetsMeta} {init : List Rule} (hr : m.rules = init ++ [allowRule])
    (hinit : ∀ r ∈ init, r.name ≠ allowName) {n : String} :
    n ∈ m.userRuleNames ↔ ∃ r ∈ init, r.name = n := by
  unfold TargetsMeta.userRuleNames
  simp only [hr, List.mem_map, List.mem_filter, List.mem_append, List.mem_singleton, bne_iff_ne]
  constructor
  · rintro ⟨r, ⟨hm | hm, hne⟩, rfl⟩
    · exact ⟨r, hm, rfl⟩
    · subst hm; exact absurd rfl hne
  · rintro ⟨r, hm, rfl⟩
    exact ⟨r, ⟨Or.inl hm, hinit r hm⟩, rfl⟩

theorem reorderRules_gen {Q} (hQ : QOK Q) (m : TargetsMeta) (names : List String) (h : GenInv Q m) :
    GenInv Q (m.reorderRules names).st := by
  obtain ⟨init, hr, hq⟩ := h
  have hinit : ∀ r ∈ init, r.name ≠ allowName := fun r hrm => ne_allow_of_not_reserved (hQ.name _ _ (hq r hrm))
  unfold TargetsMeta.reorderRules
  simp only
  split
  · exact ⟨init, hr, hq⟩
  · split
    · split <;> exact ⟨init, hr, hq⟩
    · rename_i hsub
      split
      · exact ⟨init, hr, hq⟩
      · refine ⟨names.filterMap m.lookupRule, rfl, ?_⟩
        intro r hrm
        rw [List.mem_filterMap] at hrm
        obtain ⟨nm, hnm, hl⟩ := hrm
        -- the name is a current user rule name
        have hcur : nm ∈ m.userRuleNames := by
          simp only [List.any_eq_true, Bool.not_eq_true', not_exists, not_and, Bool.not_eq_false] at hsub
          have := hsub nm hnm
          simpa using this
        obtain ⟨r1, hr1, hn1⟩ := (mem_userRuleNames hr hinit).1 hcur
        unfold TargetsMeta.lookupRule at hl
        have hp := List.find?_some hl
        have hmem := List.mem_of_find?_eq_some hl
        simp only [beq_iff_eq] at hp
        rw [List.mem_reverse, hr, List.mem_append, List.mem_singleton] at hmem
        rcases hmem with hmem | hmem
        · exact hq r hmem
        · exfalso
          subst hmem
          exact hinit r1 hr1 (by rw [hn1, ← hp]; rfl)

/-! ### principal mutators -/

theorem mem_upsert_ids {ps : List Principal} {p : Principal} {x : String} :
    x ∈ ps.map (·.id) → x ∈ (TargetsMeta.upsert ps p).map (·.id) := by
  intro hx
  unfold TargetsMeta.upsert
  split
  · rw [List.mem_map] at hx ⊢
    obtain ⟨q, hq, rfl⟩ := hx
    by_cases hqp : q.id = p.id
    · exact ⟨p, List.mem_map.2 ⟨q, hq, by simp [hqp]⟩, hqp.symm⟩
    · exact ⟨q, List.mem_map.2 ⟨q, hq, by simp [hqp]⟩, rfl⟩
  · simp only [List.map_append, List.mem_append]
    exact Or.inl hx

theorem gen_of_ids_mono {Q} (hQ : QOK Q) {m m' : TargetsMeta} (hrules : m'.rules = m.rules)
    (hids : ∀ init, m.rules = init ++ [allowRule] → ∀ r ∈ init, ∀ p ∈ r.principals, p ∈ m.ids → p ∈ m'.ids)
    (h : GenInv Q m) : GenInv Q m' := by
  obtain ⟨init, hr, hq⟩ := h
  exact ⟨init, by rw [hrules, hr], fun r hrm => hQ.mono _ _ r (hids init hr r hrm) (hq r hrm)⟩

theorem addPrincipal_gen {Q} (hQ : QOK Q) (v : Ver) (m : TargetsMeta) (p : Option Principal) (h : GenInv Q m) :
    GenInv Q (TargetsMeta.addPrincipal v m p).st := by
  unfold TargetsMeta.addPrincipal
  cases p with
  | none => exact gen_of_ids_mono (m := m) hQ rfl (fun _ _ _ _ _ _ hp => hp) h
  | some p =>
    simp only
    split
    · refine gen_of_ids_mono (m := m) hQ rfl (fun _ _ _ _ x _ hx => ?_) h
      exact mem_upsert_ids hx
    · exact gen_of_ids_mono (m := m) hQ rfl (fun _ _ _ _ _ _ hp => hp) h

theorem updatePrincipal_gen {Q} (hQ : QOK Q) (v : Ver) (m : TargetsMeta) (p : Option Principal) (h : GenInv Q m) :
    GenInv Q (TargetsMeta.updatePrincipal v m p).st := by
  unfold TargetsMeta.updatePrincipal
  cases v with
  | v01 => exact h
  | v02 =>
    cases p with
    | none => exact h
    | some p =>
      simp only
      split
      · exact h
      · split
        · refine gen_of_ids_mono (m := m) hQ rfl (fun _ _ _ _ x _ hx => ?_) h
          exact mem_upsert_ids hx
        · exact h

theorem removePrincipal_gen {Q} (hQ : QOK Q) (v : Ver) (m : TargetsMeta) (id : String) (h : GenInv Q m) :
    GenInv Q (TargetsMeta.removePrincipal v m id).st := by
  unfold TargetsMeta.removePrincipal
  split
  · exact h
  · split
    · exact h
    · split
      · exact h
      · rename_i huse
        refine gen_of_ids_mono (m := m) hQ rfl (fun init hr r hrm x hx hxd => ?_) h
        -- x is listed by a rule, hence is not the removed id
        have hne : x ≠ id := by
          intro hxe
          apply huse
          unfold TargetsMeta.inUse
          rw [List.any_eq_true]
          exact ⟨r, by rw [hr]; simp [hrm], by simp [← hxe, hx]⟩
        simp only [TargetsMeta.done, TargetsMeta.ids, List.mem_map, List.mem_filter] at hxd ⊢
        obtain ⟨q, hq, rfl⟩ := hxd
        exact ⟨q, ⟨hq, by simpa using hne⟩, rfl⟩

theorem apply_gen {Q} (hQ : QOK Q) (v : Ver) (m : TargetsMeta) (op : TOp) (h : GenInv Q m) (ha : ArgsOK Q m op) :
    GenInv Q (m.apply v op).st := by
  cases op with
  | addRule n ids pats t => exact addRule_gen m n ids pats t h ha
  | updateRule n ids pats t => exact updateRule_gen hQ m n ids pats t h ha
  | removeRule n => exact removeRule_gen hQ m n h
  | reorderRules ns => exact reorderRules_gen hQ m ns h
  | addPrincipal p => exact addPrincipal_gen hQ v m p h
  | updatePrincipal p => exact updatePrincipal_gen hQ v m p h
  | removePrincipal id => exact removePrincipal_gen hQ v m id h

/-! ### the two instances -/

theorem qok_struct : QOK RuleStruct where
  name := fun _ _ h => h.1
  mono := fun _ _ _ hm h => ⟨h.1, h.2.1, h.2.2.1, fun p hp => hm p hp (h.2.2.2 p hp)⟩

theorem qok_ok : QOK RuleOK where
  name := fun _ _ h => h.1
  mono := fun _ _ _ hm h => ⟨h.1, h.2.1, h.2.2.1, h.2.2.2.1, fun p hp => hm p hp (h.2.2.2.2 p hp)⟩

theorem argsOK_struct (m : TargetsMeta) (op : TOp) : ArgsOK RuleStruct m op := by
  cases op <;> try trivial
  all_goals
    intro hc r hn hp ht
    obtain ⟨_, hdef, h1, _⟩ := checkRuleArgs_none hc
    refine ⟨hn, by omega, by rw [hp]; exact nodup_dedup _, ?_⟩
    intro p hpm
    rw [hp] at hpm
    exact hdef p (mem_dedup.1 hpm)

/-- an accepted AddRule/UpdateRule writes a fully well-formed rule, whatever the argument list looks
like: the threshold was compared with the size of exactly the set that is stored -/
theorem argsOK_ok (m : TargetsMeta) (op : TOp) : ArgsOK RuleOK m op := by
  cases op <;> try trivial
  all_goals
    intro hc r hn hp ht
    obtain ⟨_, hdef, h1, h2⟩ := checkRuleArgs_none hc
    refine ⟨hn, by omega, by rw [hp, ht]; exact h2, by rw [hp]; exact nodup_dedup _, ?_⟩
    intro p hpm
    rw [hp] at hpm
    exact hdef p (mem_dedup.1 hpm)

/-! ### Bool versions -/

theorem ruleStructB_iff {d : List String} {r : Rule} : ruleStructB d r = true ↔ RuleStruct d r := by
  simp [ruleStructB, RuleStruct, nodupB_iff, and_assoc]

theorem ruleOKB_iff {d : List String} {r : Rule} : ruleOKB d r = true ↔ RuleOK d r := by
  simp only [ruleOKB, Bool.and_eq_true, ruleStructB_iff, RuleStruct, RuleOK, decide_eq_true_eq]
  constructor
  · rintro ⟨⟨a, b, c, d⟩, e⟩; exact ⟨a, b, e, c, d⟩
  · rintro ⟨a, b, e, c, d⟩; exact ⟨⟨a, b, c, d⟩, e⟩

theorem genInv_iff_last (Q : List String → Rule → Prop) (m : TargetsMeta) :
    GenInv Q m ↔ m.rules.getLast? = some allowRule ∧ ∀ r ∈ m.rules.dropLast, Q m.ids r := by
  constructor
  · rintro ⟨init, hr, hq⟩
    rw [hr]
    simp only [List.getLast?_append, List.getLast?_singleton, Option.some_or, List.dropLast_concat, true_and]
    exact hq
  · rintro ⟨hl, hq⟩
    obtain ⟨ys, hys⟩ := List.getLast?_eq_some_iff.1 hl
    refine ⟨ys, hys, ?_⟩
    rw [hys, List.dropLast_concat] at hq
    exact hq

/-! ### root metadata -/

theorem setAdd_nodup {s : List String} {x : String} (h : s.Nodup) : (RootMeta.setAdd s x).Nodup := by
  unfold RootMeta.setAdd
  split
  · exact h
  · rename_i hx
    rw [List.nodup_append]
    refine ⟨h, by simp, ?_⟩
    intro a ha b hb
    simp only [List.mem_singleton] at hb
    subst hb
    intro hab
    subst hab
    exact hx (by simpa using ha)

theorem length_le_setAdd (s : List String) (x : String) : s.length ≤ (RootMeta.setAdd s x).length := by
  unfold RootMeta.setAdd
  split <;> simp

theorem mem_setAdd {s : List String} {x a : String} : a ∈ RootMeta.setAdd s x ↔ a ∈ s ∨ a = x := by
  unfold RootMeta.setAdd
  split
  · rename_i hx
    constructor
    · exact Or.inl
    · rintro (h | h)
      · exact h
      · subst h; simpa using hx
  · simp

theorem roleOKB_iff {d : List String} {r : Role} : roleOKB d r = true ↔ RoleOK d r := by
  simp [roleOKB, RoleOK, nodupB_iff, and_assoc]

theorem roleOK_mono {d d' : List String} {r : Role} (hm : ∀ p ∈ d, p ∈ d') (h : RoleOK d r) : RoleOK d' r :=
  ⟨h.1, h.2.1, h.2.2.1, fun p hp => hm p (h.2.2.2 p hp)⟩

theorem mem_upsert_self (ps : List Principal) (p : Principal) : p.id ∈ (TargetsMeta.upsert ps p).map (·.id) := by
  unfold TargetsMeta.upsert
  split
  · rename_i h
    rw [List.any_eq_true] at h
    obtain ⟨q, hq, hqp⟩ := h
    rw [List.mem_map]
    exact ⟨p, List.mem_map.2 ⟨q, hq, by simp [hqp]⟩, rfl⟩
  · simp

def RolesOK (m : RootMeta) : Prop := ∀ w r, m.role w = some r → RoleOK m.ids r
def GlobalsOK (gs : List GlobalRule) : Prop :=
  (∀ g ∈ gs, g.kind = .threshold → 1 ≤ g.threshold) ∧ (gs.map (·.name)).Nodup

theorem rootInv_iff (m : RootMeta) : RootInv m ↔ RolesOK m ∧ GlobalsOK m.globalRules := by
  constructor
  · rintro ⟨a, b, c, d⟩
    exact ⟨fun w r h => by cases w; exact a r h; exact b r h, c, d⟩
  · rintro ⟨H, c, d⟩
    exact ⟨fun r h => H .root r h, fun r h => H .targets r h, c, d⟩

theorem role_setRole (m : RootMeta) (w w' : RoleName) (r : Role) :
    (m.setRole w r).role w' = if w' = w then some r else m.role w' := by
  cases w <;> cases w' <;> simp [RootMeta.setRole, RootMeta.role]

@[simp] theorem ids_setRole (m : RootMeta) (w : RoleName) (r : Role) : (m.setRole w r).ids = m.ids := by
  cases w <;> rfl
@[simp] theorem globals_setRole (m : RootMeta) (w : RoleName) (r : Role) :
    (m.setRole w r).globalRules = m.globalRules := by
  cases w <;> rfl

theorem rolesOK_setRole {m : RootMeta} {w : RoleName} {r : Role} (h : RolesOK m) (hr : RoleOK m.ids r) :
    RolesOK (m.setRole w r) := by
  intro w' r' h'
  rw [role_setRole] at h'
  rw [ids_setRole]
  split at h'
  · cases h'; exact hr
  · exact h w' r' h'

theorem rolesOK_principals {m : RootMeta} {ps : List Principal} (h : RolesOK m)
    (hm : ∀ p ∈ m.ids, p ∈ ps.map (·.id)) : RolesOK { m with principals := ps } := by
  intro w r hr
  have : m.role w = some r := by cases w <;> exact hr
  exact roleOK_mono hm (h w r this)

theorem length_filter_ne {x : String} : ∀ {l : List String}, l.Nodup →
    l.length ≤ (l.filter (fun y => y != x)).length + 1
  | [], _ => by simp
  | a :: as, h => by
    have h' := List.nodup_cons.1 h
    by_cases hax : a = x
    · subst hax
      have : as.filter (fun y => y != a) = as := by
        rw [List.filter_eq_self]
        intro b hb
        simp only [bne_iff_ne, ne_eq]
        intro hba; subst hba; exact h'.1 hb
      simp [this]
    · have ih := length_filter_ne (x := x) h'.2
      simp [hax]
      omega

theorem addRolePrincipal_inv (v : Ver) (m : RootMeta) (w : RoleName) (p : Option Principal) (h : RootInv m) :
    RootInv (RootMeta.addRolePrincipal v m w p).st := by
  rw [rootInv_iff] at h ⊢
  obtain ⟨hr, hg⟩ := h
  unfold RootMeta.addRolePrincipal
  cases p with
  | none => exact ⟨hr, hg⟩
  | some p =>
    simp only
    split
    · exact ⟨hr, hg⟩
    · have hr1 : RolesOK { m with principals := TargetsMeta.upsert m.principals p } :=
        rolesOK_principals hr (fun x hx => mem_upsert_ids hx)
      have hself : p.id ∈ ({ m with principals := TargetsMeta.upsert m.principals p } : RootMeta).ids :=
        mem_upsert_self m.principals p
      cases hw : m.role w with
      | none =>
        simp only [RootMeta.done, globals_setRole]
        refine ⟨rolesOK_setRole hr1 ⟨by simp, by simp, by simp, ?_⟩, hg⟩
        intro x hx
        simp only [List.mem_singleton] at hx
        subst hx; exact hself
      | some r =>
        simp only [RootMeta.done, globals_setRole]
        have hro : RoleOK m.ids r := hr w r hw
        refine ⟨rolesOK_setRole hr1 ⟨hro.1, ?_, setAdd_nodup hro.2.2.1, ?_⟩, hg⟩
        · have := length_le_setAdd r.principals p.id
          have := hro.2.1
          simp only
          omega
        · intro x hx
          rcases mem_setAdd.1 hx with hx | hx
          · exact mem_upsert_ids (hro.2.2.2 x hx)
          · subst hx; exact hself

theorem deleteRolePrincipal_inv (m : RootMeta) (w : RoleName) (id : String) (h : RootInv m) :
    RootInv (m.deleteRolePrincipal w id).st := by
  rw [rootInv_iff] at h ⊢
  obtain ⟨hr, hg⟩ := h
  unfold RootMeta.deleteRolePrincipal
  split
  · exact ⟨hr, hg⟩
  · cases hw : m.role w with
    | none => exact ⟨hr, hg⟩
    | some r =>
      simp only
      split
      · exact ⟨hr, hg⟩
      · rename_i hlen
        simp only [RootMeta.done, globals_setRole]
        have hro : RoleOK m.ids r := hr w r hw
        refine ⟨rolesOK_setRole hr ⟨hro.1, ?_, hro.2.2.1.sublist List.filter_sublist, ?_⟩, hg⟩
        · have := length_filter_ne (x := id) hro.2.2.1
          simp only
          omega
        · intro x hx
          exact hro.2.2.2 x (List.mem_filter.1 hx).1

theorem updateRoleThreshold_inv (m : RootMeta) (w : RoleName) (t : Int) (h : RootInv m) :
    RootInv (m.updateRoleThreshold w t).st := by
  rw [rootInv_iff] at h ⊢
  obtain ⟨hr, hg⟩ := h
  unfold RootMeta.updateRoleThreshold
  cases hw : m.role w with
  | none => exact ⟨hr, hg⟩
  | some r =>
    simp only
    split
    · exact ⟨hr, hg⟩
    · split
      · exact ⟨hr, hg⟩
      · simp only [RootMeta.done, globals_setRole]
        have hro : RoleOK m.ids r := hr w r hw
        exact ⟨rolesOK_setRole hr ⟨by simp only; omega, by simp only; omega, hro.2.2.1, hro.2.2.2⟩, hg⟩

theorem rolesOK_globals {m : RootMeta} (gs : List GlobalRule) (h : RolesOK m) : RolesOK { m with globalRules := gs } := by
  intro w r hr
  have : m.role w = some r := by cases w <;> exact hr
  exact h w r this

theorem rolesOK_props {m : RootMeta} (ps : List Propagation) (h : RolesOK m) : RolesOK { m with propagations := ps } := by
  intro w r hr
  have : m.role w = some r := by cases w <;> exact hr
  exact h w r this

theorem good_of_not_bad {g : GlobalRule} (h : ¬ RootMeta.badGlobalThreshold g = true) :
    g.kind = .threshold → 1 ≤ g.threshold := by
  intro hk
  simp only [RootMeta.badGlobalThreshold, hk, beq_self_eq_true, Bool.true_and, decide_eq_true_eq] at h
  omega

theorem addGlobalRule_inv (m : RootMeta) (g : GlobalRule) (h : RootInv m) : RootInv (m.addGlobalRule g).st := by
  rw [rootInv_iff] at h ⊢
  obtain ⟨hr, hg⟩ := h
  unfold RootMeta.addGlobalRule
  split
  · exact ⟨hr, hg⟩
  · rename_i hbad
    split
    · exact ⟨hr, hg⟩
    · rename_i hdup
      refine ⟨rolesOK_globals _ hr, ?_, ?_⟩
      · intro x hx
        simp only [RootMeta.done, List.mem_append, List.mem_singleton] at hx
        rcases hx with hx | hx
        · exact hg.1 x hx
        · subst hx; exact good_of_not_bad hbad
      · simp only [RootMeta.done, List.map_append, List.map_cons, List.map_nil]
        rw [List.nodup_append]
        refine ⟨hg.2, by simp, ?_⟩
        intro a ha b hb hab
        simp only [List.mem_singleton] at hb
        subst hb; subst hab
        apply hdup
        rw [List.mem_map] at ha
        obtain ⟨q, hq, hqn⟩ := ha
        rw [List.any_eq_true]
        exact ⟨q, hq, by simp [hqn]⟩

theorem deleteGlobalRule_inv (m : RootMeta) (n : String) (h : RootInv m) : RootInv (m.deleteGlobalRule n).st := by
  rw [rootInv_iff] at h ⊢
  obtain ⟨hr, hg⟩ := h
  unfold RootMeta.deleteGlobalRule
  split
  · exact ⟨hr, hg⟩
  · refine ⟨rolesOK_globals _ hr, ?_, ?_⟩
    · intro x hx
      exact hg.1 x (List.mem_filter.1 hx).1
    · exact hg.2.sublist (List.Sublist.map _ List.filter_sublist)

theorem updateGlobalGo_spec (g : GlobalRule) : ∀ (l : List GlobalRule) (f : Bool) (l' : List GlobalRule),
    RootMeta.updateGlobalGo g l = some (f, l') →
      l'.map (·.name) = l.map (·.name) ∧ ∀ x ∈ l', x = g ∨ x ∈ l
  | [], f, l', h => by
    simp only [RootMeta.updateGlobalGo, Option.some.injEq, Prod.mk.injEq] at h
    obtain ⟨_, rfl⟩ := h
    simp
  | r :: rs, f, l', h => by
    unfold RootMeta.updateGlobalGo at h
    cases hrec : RootMeta.updateGlobalGo g rs with
    | none => simp [hrec] at h
    | some pr =>
      obtain ⟨f0, l0⟩ := pr
      have ih := updateGlobalGo_spec g rs f0 l0 hrec
      simp only [hrec, Option.map_some] at h
      split at h
      · rename_i hn
        split at h
        · cases h
        · simp only [Option.some.injEq, Prod.mk.injEq] at h
          obtain ⟨_, rfl⟩ := h
          refine ⟨by simp [ih.1, hn], ?_⟩
          intro x hx
          rcases List.mem_cons.1 hx with hx | hx
          · exact Or.inl hx
          · rcases ih.2 x hx with hx | hx
            · exact Or.inl hx
            · exact Or.inr (List.mem_cons_of_mem _ hx)
      · simp only [Option.some.injEq, Prod.mk.injEq] at h
        obtain ⟨_, rfl⟩ := h
        refine ⟨by simp [ih.1], ?_⟩
        intro x hx
        rcases List.mem_cons.1 hx with hx | hx
        · exact Or.inr (by simp [hx])
        · rcases ih.2 x hx with hx | hx
          · exact Or.inl hx
          · exact Or.inr (List.mem_cons_of_mem _ hx)

theorem updateGlobalRule_inv (m : RootMeta) (g : GlobalRule) (h : RootInv m) : RootInv (m.updateGlobalRule g).st := by
  rw [rootInv_iff] at h ⊢
  obtain ⟨hr, hg⟩ := h
  unfold RootMeta.updateGlobalRule
  split
  · exact ⟨hr, hg⟩
  · rename_i hbad
    split
    · exact ⟨hr, hg⟩
    · split
      · exact ⟨hr, hg⟩
      · exact ⟨hr, hg⟩
      · rename_i l hgo
        have hs := updateGlobalGo_spec g _ _ _ hgo
        refine ⟨rolesOK_globals _ hr, ?_, ?_⟩
        · intro x hx
          rcases hs.2 x hx with hx | hx
          · subst hx; exact good_of_not_bad hbad
          · exact hg.1 x hx
        · simp only [RootMeta.done]
          rw [hs.1]; exact hg.2

theorem root_apply_inv (v : Ver) (m : RootMeta) (op : ROp) (h : RootInv m) : RootInv (m.apply v op).st := by
  cases op with
  | addRolePrincipal w p => exact addRolePrincipal_inv v m w p h
  | deleteRolePrincipal w id => exact deleteRolePrincipal_inv m w id h
  | updateRoleThreshold w t => exact updateRoleThreshold_inv m w t h
  | addGlobalRule g => exact addGlobalRule_inv m g h
  | updateGlobalRule g => exact updateGlobalRule_inv m g h
  | deleteGlobalRule n => exact deleteGlobalRule_inv m n h
  | addPropagation d =>
    rw [rootInv_iff] at h ⊢
    simp only [RootMeta.apply, RootMeta.addPropagation]
    split
    · exact h
    · exact ⟨rolesOK_props _ h.1, h.2⟩
  | updatePropagation d =>
    rw [rootInv_iff] at h ⊢
    simp only [RootMeta.apply, RootMeta.updatePropagation]
    split
    · exact ⟨rolesOK_props _ h.1, h.2⟩
    · exact h
  | deletePropagation n =>
    rw [rootInv_iff] at h ⊢
    simp only [RootMeta.apply, RootMeta.deletePropagation]
    split
    · exact ⟨rolesOK_props _ h.1, h.2⟩
    · exact h

end Gittuf.Meta
