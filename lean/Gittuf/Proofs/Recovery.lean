import Gittuf.Proofs.Loop
/-!
C07 at the level of the whole verification loop: an accepted walk leaves every entry of the verified
reference either verified under a state in force, or *tolerated* in the sense of the property
(revoked; a later unrevoked entry restores the tree of the last unrevoked entry before it; every
entry for the reference in between is revoked).  Core Lean only.
-/
namespace Gittuf
namespace World

/-- `k` is set aside by the fix search for `ref` (entry of another reference, or a propagation entry) -/
def deferredBy (W : World) (ref : String) (k : Nat) : Bool :=
  match W.log[k]? with
  | some e => e.ref != ref || e.kind == .prop
  | none => false

/-- `k` is examined by the fix search for `ref` as an entry of that reference -/
def examinedBy (W : World) (ref : String) (k : Nat) : Bool :=
  match W.log[k]? with
  | some e => e.ref == ref && e.kind != .prop
  | none => false

/-- **Shape of a successful fix search**: the queue splits at the fix; the new queue is what had
been deferred before, the deferred entries met before the fix, and everything after the fix; the
flag tells exactly whether an examined entry before the fix is not revoked. -/
theorem lookForFix_shape (W : World) (ref : String) (goodTree : Nat) :
    ∀ (q newQ : List Nat) (bad : Bool) (f : Nat) (b : Bool) (nq : List Nat),
      W.lookForFix ref goodTree q newQ bad = (some f, b, nq) →
      ∃ pre post, q = pre ++ f :: post ∧
        nq = newQ ++ pre.filter (W.deferredBy ref) ++ post ∧
        b = (bad || pre.any (fun k => W.examinedBy ref k && !W.skipped k)) ∧
        W.examinedBy ref f = true ∧ W.skipped f = false ∧
        ∃ e, W.log[f]? = some e ∧ W.treeOfEntry e = goodTree := by
  intro q
  induction q with
  | nil => intro newQ bad f b nq h; simp [lookForFix] at h
  | cons j rest ih =>
    intro newQ bad f b nq h
    unfold lookForFix at h
    split at h
    · rename_i hnone
      obtain ⟨pre, post, h1, h2, h3, h4⟩ := ih _ _ _ _ _ h
      refine ⟨j :: pre, post, by simp [h1], ?_, ?_, h4⟩
      · simp [deferredBy, hnone, h2]
      · simp [List.any_cons, examinedBy, hnone, h3]
    · rename_i e he
      split at h
      · rename_i href
        obtain ⟨pre, post, h1, h2, h3, h4⟩ := ih _ _ _ _ _ h
        refine ⟨j :: pre, post, by simp [h1], ?_, ?_, h4⟩
        · have : W.deferredBy ref j = true := by simp [deferredBy, he, href]
          simp [this, h2]
        · have : W.examinedBy ref j = false := by
            simp only [examinedBy, he]
            have : (e.ref == ref) = false := by simpa using href
            simp [this]
          simp [List.any_cons, this, h3]
      · rename_i href
        split at h
        · rename_i hprop
          obtain ⟨pre, post, h1, h2, h3, h4⟩ := ih _ _ _ _ _ h
          refine ⟨j :: pre, post, by simp [h1], ?_, ?_, h4⟩
          · have : W.deferredBy ref j = true := by simp [deferredBy, he, hprop]
            simp [this, h2]
          · have : W.examinedBy ref j = false := by
              simp only [examinedBy, he]
              have : (e.kind != .prop) = false := by simpa using hprop
              simp [this]
            simp [List.any_cons, this, h3]
        · rename_i hprop
          have hex : W.examinedBy ref j = true := by
            simp only [examinedBy, he, Bool.and_eq_true]
            exact ⟨by simpa using href, by simpa using hprop⟩
          have hdef : W.deferredBy ref j = false := by
            simp only [deferredBy, he]
            have h1 : (e.ref != ref) = false := by simpa using href
            have h2 : (e.kind == .prop) = false := by simpa using hprop
            simp [h1, h2]
          split at h
          · rename_i hfix
            simp only [Prod.mk.injEq, Option.some.injEq] at h
            obtain ⟨hf, hb, hnq⟩ := h
            subst hf
            simp only [Bool.and_eq_true, beq_iff_eq, Bool.not_eq_true'] at hfix
            refine ⟨[], rest, by simp, by simp [hnq], by simp [hb], hex, hfix.2, e, he, hfix.1⟩
          · obtain ⟨pre, post, h1, h2, h3, h4⟩ := ih _ _ _ _ _ h
            refine ⟨j :: pre, post, by simp [h1], ?_, ?_, h4⟩
            · simp [hdef, h2]
            · simp [List.any_cons, hex, h3, Bool.or_assoc]

/-- `k` is a reference entry (kind `ref`) recorded for `r` -/
def refK (W : World) (r : String) (k : Nat) : Bool :=
  match W.log[k]? with
  | some e => e.kind == .ref && e.ref == r
  | none => false

/-- stepping the look-up bound over an entry that is not an unrevoked reference entry for `r` -/
theorem latestFor_step (W : World) (r : String) (k : Nat)
    (h : W.refK r k = true → W.skipped k = true) :
    W.latestFor r (k + 1) (unskipped := true) (refOnly := true) =
      W.latestFor r k (unskipped := true) (refOnly := true) := by
  unfold latestFor below
  rw [List.range_succ, List.reverse_append]
  simp only [List.reverse_cons, List.reverse_nil, List.nil_append, List.cons_append]
  rw [List.find?_cons_of_neg]
  cases hk : W.log[k]? with
  | none => simp
  | some e =>
    simp only [refK, hk] at h
    cases hkind : (e.kind == .ref) with
    | false => simp [hkind]
    | true =>
      cases href : (e.ref == r) with
      | false => simp [href]
      | true =>
        have := h (by simp [hkind, href])
        simp [this, hkind]

/-- a run of revoked reference entries does not change the last unrevoked reference entry -/
theorem latestFor_skip_run (W : World) (r : String) (a : Nat) :
    ∀ (d : Nat), (∀ k, a ≤ k → k < a + d → W.refK r k = true → W.skipped k = true) →
      W.latestFor r (a + d) (unskipped := true) (refOnly := true) =
        W.latestFor r a (unskipped := true) (refOnly := true) := by
  intro d
  induction d with
  | zero => intro _; rfl
  | succ d ih =>
    intro h
    rw [← Nat.add_assoc, latestFor_step W r (a + d) (h (a + d) (by omega) (by omega))]
    exact ih (fun k h1 h2 => h k h1 (by omega))


/-- the tree the loop takes as "last good" from entry `lg` -/
def goodTreeAt (W : World) (lg : Nat) : Nat :=
  match (W.log[lg]?).bind targetCommit with | some c => W.treeOf c | none => 0

/-- entry `j` of reference `r` is tolerated with fix `f` (C07, on the log as a list) -/
structure TolWith (W : World) (r : String) (hi j f : Nat) : Prop where
  revoked : W.skipped j = true
  lt : j < f
  le : f ≤ hi
  fixRef : W.refK r f = true
  fixUnrevoked : W.skipped f = false
  tree : ∃ lg fe, W.latestFor r j (unskipped := true) (refOnly := true) = some lg ∧
      W.log[f]? = some fe ∧ W.treeOfEntry fe = W.goodTreeAt lg
  between : ∀ k, j < k → k < f → W.refK r k = true → W.skipped k = true

/-- what an accepted walk guarantees for an entry of the verified reference -/
def EntryOK7 (W : World) (v : Variant) (r : String) (hi : Nat) (st : VState) (q : List Nat)
    (j : Nat) (e : LogEntry) : Prop :=
  (∃ P A, SeenPolicy W st q P ∧ SeenAtt W st q A ∧ W.verifyEntry v P A j e = .ok ()) ∨
  (∃ f, TolWith W r hi j f) ∨
  (v.f3_fixNotVerified = true ∧ ∃ a, TolWith W r hi a j)

theorem EntryOK7.mono {W : World} {v : Variant} {r : String} {hi : Nat} {st st' : VState}
    {q q' : List Nat} {j : Nat} {e : LogEntry}
    (hq : ∀ k ∈ q', k ∈ q)
    (hp : ∀ P, st'.policy = some P → SeenPolicy W st q P)
    (ha : SeenAtt W st q st'.att)
    (h : EntryOK7 W v r hi st' q' j e) : EntryOK7 W v r hi st q j e := by
  rcases h with ⟨P, A, hP, hA, hv⟩ | h | h
  · refine Or.inl ⟨P, A, ?_, ?_, hv⟩
    · rcases hP with hP | ⟨k, hk, hl⟩
      · exact hp P hP
      · exact Or.inr ⟨k, hq k hk, hl⟩
    · rcases hA with hA | ⟨k, hk, hl⟩
      · rw [hA]; exact ha
      · exact Or.inr ⟨k, hq k hk, hl⟩
  · exact Or.inr (Or.inl h)
  · exact Or.inr (Or.inr h)

/-- invariant of the queue: ascending log indices up to `hi`; reference updaters only; its entries
outside gittuf's namespace are reference entries of `r` at or above `lo`; and it holds every
reference entry of `r` recorded in `[lo, hi]` -/
structure QInv (W : World) (r : String) (hi lo : Nat) (q : List Nat) : Prop where
  sorted : q.Pairwise (· < ·)
  le : ∀ k ∈ q, k ≤ hi
  branch : ∀ k ∈ q, ∀ e, W.log[k]? = some e → hasPrefix e.ref gittufPrefix = false →
    e.ref = r ∧ e.kind = .ref ∧ lo ≤ k
  complete : ∀ k, lo ≤ k → k ≤ hi → W.refK r k = true → k ∈ q

theorem QInv.tail {W : World} {r : String} {hi lo a : Nat} {rest : List Nat}
    (h : QInv W r hi lo (a :: rest)) : QInv W r hi (max lo (a + 1)) rest := by
  have hs := List.pairwise_cons.mp h.sorted
  refine ⟨hs.2, fun k hk => h.le k (List.mem_cons_of_mem _ hk), ?_, ?_⟩
  · intro k hk e he hb
    obtain ⟨h1, h2, h3⟩ := h.branch k (List.mem_cons_of_mem _ hk) e he hb
    have := hs.1 k hk
    exact ⟨h1, h2, by omega⟩
  · intro k hk1 hk2 hk3
    rcases List.mem_cons.mp (h.complete k (by omega) hk2 hk3) with hk | hk
    · omega
    · exact hk


theorem examinedBy_of_refK {W : World} {r : String} {k : Nat} (h : W.refK r k = true) :
    W.examinedBy r k = true := by
  unfold refK at h; unfold examinedBy
  split at h
  · rename_i e he
    simp only [Bool.and_eq_true, beq_iff_eq] at h
    simp [h.1, h.2]
  · cases h

theorem sublist_newQ (p : Nat → Bool) (pre post : List Nat) (f : Nat) :
    (([] : List Nat) ++ pre.filter p ++ post).Sublist (pre ++ f :: post) := by
  simp only [List.nil_append]
  exact List.Sublist.append List.filter_sublist (List.sublist_cons_self f post)

/-- **C07 for the whole loop**, for every history, queue, starting state, fuel and variant: if the
verification loop accepts a queue that satisfies the invariant of a verified range (`QInv`: the
queue of `VerifyRelativeForRef` for a reference without propagation entries), every entry of the
queue recorded for the verified reference was accepted by `verifyEntry` under a policy and an
attestation state in force during the walk, or is tolerated as the property demands — or, only in
the variant that carries defect F3, is the unverified fix of a tolerated entry. -/
theorem relLoop_recovery_gen (W : World) (v : Variant) (first : Nat) (r : String) (hi : Nat)
    (hr : hasPrefix r gittufPrefix = false) :
    ∀ (fuel : Nat) (q : List Nat) (st : VState) (lo : Nat),
      QInv W r hi lo q →
      W.relLoop v first fuel q st = .ok () →
      ∀ j ∈ q, ∀ e, W.log[j]? = some e → hasPrefix e.ref gittufPrefix = false →
        EntryOK7 W v r hi st q j e := by
  intro fuel
  induction fuel with
  | zero => intro q st lo _ h; simp [relLoop] at h
  | succ fuel ih =>
    intro q st lo hinv h j hj e he hbranch
    cases q with
    | nil => cases hj
    | cons a rest =>
      unfold relLoop at h
      split at h
      · cases h
      · rename_i ea hea
        have hinv' := hinv.tail
        have hjb := hinv.branch j hj e he hbranch
        have tailCase : ∀ (st' : VState), W.relLoop v first fuel rest st' = .ok () →
            (∀ P, st'.policy = some P → SeenPolicy W st (a :: rest) P) →
            SeenAtt W st (a :: rest) st'.att → j ∈ rest → EntryOK7 W v r hi st (a :: rest) j e := by
          intro st' h' hp ha hjr
          exact EntryOK7.mono (fun k hk => List.mem_cons_of_mem _ hk) hp ha
            (ih rest st' _ hinv' h' j hjr e he hbranch)
        have sameSt : (∀ P, st.policy = some P → SeenPolicy W st (a :: rest) P) := fun P hP => Or.inl hP
        have sameAtt : SeenAtt W st (a :: rest) st.att := Or.inl rfl
        split at h
        · rename_i hprop
          rcases List.mem_cons.mp hj with hja | hjr
          · subst hja
            rw [hea] at he; cases he
            simp only [Bool.and_eq_true, beq_iff_eq] at hprop
            rw [hjb.2.1] at hprop
            exact absurd hprop.1 (by decide)
          · exact tailCase st h sameSt sameAtt hjr
        · split at h
          · rename_i hstag
            rcases List.mem_cons.mp hj with hja | hjr
            · subst hja
              rw [hea] at he; cases he
              have : e.ref = policyStagingRef := by simpa using hstag
              rw [this, gittuf_prefix_staging] at hbranch; cases hbranch
            · exact tailCase st h sameSt sameAtt hjr
          · split at h
            · rename_i hpol
              have hnotj : j ≠ a := by
                intro hja; subst hja
                rw [hea] at he; cases he
                have : e.ref = policyRef := by simpa using hpol
                rw [this, gittuf_prefix_policy] at hbranch; cases hbranch
              have hjr : j ∈ rest := by
                rcases List.mem_cons.mp hj with hja | hjr
                · exact absurd hja hnotj
                · exact hjr
              split at h
              · exact tailCase st h sameSt sameAtt hjr
              · split at h
                · cases h
                · rename_i newP hnewP
                  have newSeen : ∀ P, (some newP : Option Policy) = some P → SeenPolicy W st (a :: rest) P := by
                    intro P hP; cases hP; exact Or.inr ⟨a, List.mem_cons_self, hnewP⟩
                  split at h
                  · split at h
                    · cases h
                    · split at h
                      · split at h
                        · cases h
                        · exact tailCase { st with policy := some newP } h newSeen sameAtt hjr
                      · exact tailCase { st with policy := some newP } h newSeen sameAtt hjr
                  · split at h
                    · split at h
                      · cases h
                      · exact tailCase { st with policy := some newP } h newSeen sameAtt hjr
                    · exact tailCase { st with policy := some newP } h newSeen sameAtt hjr
            · split at h
              · rename_i hatt
                have hnotj : j ≠ a := by
                  intro hja; subst hja
                  rw [hea] at he; cases he
                  have : e.ref = attestationsRef := by simpa using hatt
                  rw [this, gittuf_prefix_att] at hbranch; cases hbranch
                have hjr : j ∈ rest := by
                  rcases List.mem_cons.mp hj with hja | hjr
                  · exact absurd hja hnotj
                  · exact hjr
                split at h
                · cases h
                · rename_i at' hat'
                  exact tailCase { st with att := some at' } h sameSt (Or.inr ⟨a, List.mem_cons_self, hat'.symm⟩) hjr
              · split at h
                · cases h
                · rename_i P hP
                  split at h
                  · rename_i hver
                    rcases List.mem_cons.mp hj with hja | hjr
                    · subst hja
                      rw [hea] at he; cases he
                      exact Or.inl ⟨P, st.att, Or.inl hP, Or.inl rfl, hver⟩
                    · exact tailCase st h sameSt sameAtt hjr
                  · rename_i err hverr
                    split at h
                    · cases h
                    · rename_i hskip
                      have hskip' : W.skipped a = true := by simpa using hskip
                      split at h
                      · cases h
                      · split at h
                        · cases h
                        · rename_i lg hlg
                          simp only at h
                          split at h
                          · cases h
                          · rename_i fix bad newQ hfix
                            split at h
                            · cases h
                            · rename_i hbad
                              have hbad' : bad = false := by simpa using hbad
                              subst hbad'
                              obtain ⟨pre, post, hrest, hnq, hb, hexf, hskf, fe, hfe, htree⟩ :=
                                lookForFix_shape W ea.ref _ rest [] false fix false newQ hfix
                              have hs := List.pairwise_cons.mp hinv.sorted
                              have hs2 := hs.2
                              rw [hrest] at hs2
                              have hsa := List.pairwise_append.mp hs2
                              have hpre_lt : ∀ k ∈ pre, k < fix := fun k hk => hsa.2.2 k hk fix List.mem_cons_self
                              have hpost_gt : ∀ k ∈ post, fix < k := fun k hk =>
                                (List.pairwise_cons.mp hsa.2.1).1 k hk
                              have hfix_rest : fix ∈ rest := by rw [hrest]; simp
                              have ha_fix : a < fix := hs.1 fix hfix_rest
                              have hsub : ∀ k ∈ newQ, k ∈ rest := by
                                intro k hk
                                rw [hnq] at hk
                                rw [hrest]
                                exact (sublist_newQ _ pre post fix).subset hk
                              have hpre_sk : ∀ k ∈ pre, W.examinedBy ea.ref k = true → W.skipped k = true := by
                                intro k hk hex
                                have hany : pre.any (fun k => W.examinedBy ea.ref k && !W.skipped k) = false := by
                                  simpa using hb.symm
                                have := List.any_eq_false.mp hany k hk
                                simpa [hex] using this
                              have hnewSorted : newQ.Pairwise (· < ·) := by
                                rw [hnq]
                                exact List.Pairwise.sublist (sublist_newQ _ pre post fix) (hrest ▸ hs.2)
                              -- continuation common to both variants of F3
                              have cont : W.relLoop v first fuel newQ st = .ok () →
                                  (v.f3_fixNotVerified = true ∨ W.verifyEntry v P st.att fix fe = .ok ()) →
                                  EntryOK7 W v r hi st (a :: rest) j e := by
                                intro hloop hfixinfo
                                by_cases hra : ea.ref = r
                                · -- the violating entry is an entry of the verified reference
                                  obtain ⟨_, hakind, hloa⟩ := hinv.branch a List.mem_cons_self ea hea (hra ▸ hr)
                                  rw [hra] at hexf hpre_sk hlg
                                  have hbetween : ∀ k, a < k → k < fix → W.refK r k = true → W.skipped k = true := by
                                    intro k hk1 hk2 hk3
                                    have hkq := hinv.complete k (by omega) (by have := hinv.le fix (List.mem_cons_of_mem _ hfix_rest); omega) hk3
                                    rcases List.mem_cons.mp hkq with hk | hk
                                    · omega
                                    · rw [hrest] at hk
                                      rcases List.mem_append.mp hk with hk | hk
                                      · exact hpre_sk k hk (examinedBy_of_refK hk3)
                                      · rcases List.mem_cons.mp hk with hk | hk
                                        · omega
                                        · have := hpost_gt k hk; omega
                                  have hfixRefK : W.refK r fix = true := by
                                    have hfr : fe.ref = r := by
                                      simp only [examinedBy, hfe, Bool.and_eq_true, beq_iff_eq] at hexf
                                      exact hexf.1
                                    obtain ⟨_, hk, _⟩ := hinv.branch fix (List.mem_cons_of_mem _ hfix_rest) fe hfe (hfr ▸ hr)
                                    simp [refK, hfe, hk, hfr]
                                  have tolA : TolWith W r hi a fix :=
                                    ⟨hskip', ha_fix, hinv.le fix (List.mem_cons_of_mem _ hfix_rest), hfixRefK, hskf,
                                      ⟨lg, fe, hlg, hfe, htree⟩, hbetween⟩
                                  rcases List.mem_cons.mp hj with hja | hjr
                                  · subst hja
                                    exact Or.inr (Or.inl ⟨fix, tolA⟩)
                                  · rw [hrest] at hjr
                                    rcases List.mem_append.mp hjr with hjp | hjp
                                    · -- a revoked entry between the violation and its fix
                                      have hjref : W.refK r j = true := by simp [refK, he, hjb.1, hjb.2.1]
                                      have hjsk := hpre_sk j hjp (examinedBy_of_refK hjref)
                                      have haj : a < j := hs.1 j (by rw [hrest]; exact List.mem_append_left _ hjp)
                                      have hjf := hpre_lt j hjp
                                      have hlat : W.latestFor r j (unskipped := true) (refOnly := true) = some lg := by
                                        have := latestFor_skip_run W r a (j - a) (by
                                          intro k hk1 hk2 hk3
                                          by_cases hka : k = a
                                          · subst hka; exact hskip'
                                          · exact hbetween k (by omega) (by omega) hk3)
                                        have hja : a + (j - a) = j := by omega
                                        rw [hja] at this
                                        rw [this]; exact hlg
                                      exact Or.inr (Or.inl ⟨fix, ⟨hjsk, hjf, tolA.le, hfixRefK, hskf,
                                        ⟨lg, fe, hlat, hfe, htree⟩,
                                        fun k hk1 hk2 hk3 => hbetween k (by omega) hk2 hk3⟩⟩)
                                    · rcases List.mem_cons.mp hjp with hjf | hjpost
                                      · subst hjf
                                        rw [hfe] at he; cases he
                                        rcases hfixinfo with hf3 | hfv
                                        · exact Or.inr (Or.inr ⟨hf3, a, tolA⟩)
                                        · exact Or.inl ⟨P, st.att, Or.inl hP, Or.inl rfl, hfv⟩
                                      · have hjn : j ∈ newQ := by
                                          rw [hnq]; exact List.mem_append_right _ hjpost
                                        have hinvN : QInv W r hi (fix + 1) newQ := by
                                          refine ⟨hnewSorted, fun k hk => hinv.le k (List.mem_cons_of_mem _ (hsub k hk)), ?_, ?_⟩
                                          · intro k hk e' he' hb'
                                            obtain ⟨h1, h2, _⟩ := hinv.branch k (List.mem_cons_of_mem _ (hsub k hk)) e' he' hb'
                                            refine ⟨h1, h2, ?_⟩
                                            rw [hnq] at hk
                                            simp only [List.nil_append] at hk
                                            rcases List.mem_append.mp hk with hk | hk
                                            · have hd := (List.mem_filter.mp hk).2
                                              simp [deferredBy, he', h1, h2, hra] at hd
                                            · have := hpost_gt k hk; omega
                                          · intro k hk1 hk2 hk3
                                            have hkq := hinv.complete k (by omega) hk2 hk3
                                            rcases List.mem_cons.mp hkq with hk | hk
                                            · omega
                                            · rw [hrest] at hk
                                              rcases List.mem_append.mp hk with hk | hk
                                              · have := hpre_lt k hk; omega
                                              · rcases List.mem_cons.mp hk with hk | hk
                                                · omega
                                                · rw [hnq]; exact List.mem_append_right _ hk
                                        exact EntryOK7.mono (fun k hk => List.mem_cons_of_mem _ (hsub k hk)) sameSt sameAtt
                                          (ih newQ st _ hinvN hloop j hjn e he hbranch)
                                · -- the violating entry belongs to another (gittuf) reference
                                  rcases List.mem_cons.mp hj with hja | hjr
                                  · subst hja
                                    rw [hea] at he; cases he
                                    exact absurd hjb.1 hra
                                  · have hjn : j ∈ newQ := by
                                      rw [hrest] at hjr
                                      rw [hnq]
                                      simp only [List.nil_append]
                                      rcases List.mem_append.mp hjr with hjp | hjp
                                      · refine List.mem_append_left _ (List.mem_filter.mpr ⟨hjp, ?_⟩)
                                        have : (e.ref != ea.ref) = true := by
                                          rw [hjb.1]; simpa using (fun h => hra h.symm)
                                        simp [deferredBy, he, this]
                                      · rcases List.mem_cons.mp hjp with hjf | hjpost
                                        · subst hjf
                                          rw [hfe] at he; cases he
                                          simp only [examinedBy, hfe, Bool.and_eq_true, beq_iff_eq] at hexf
                                          exact absurd (hexf.1.symm.trans hjb.1) hra
                                        · exact List.mem_append_right _ hjpost
                                    have hinvN : QInv W r hi (max lo (a + 1)) newQ := by
                                      refine ⟨hnewSorted, fun k hk => hinv.le k (List.mem_cons_of_mem _ (hsub k hk)),
                                        fun k hk => hinv'.branch k (hsub k hk), ?_⟩
                                      intro k hk1 hk2 hk3
                                      have hkr := hinv'.complete k hk1 hk2 hk3
                                      rw [hrest] at hkr
                                      rw [hnq]
                                      simp only [List.nil_append]
                                      have hkref : ∃ e', W.log[k]? = some e' ∧ e'.ref = r := by
                                        unfold refK at hk3
                                        split at hk3
                                        · rename_i e' he'
                                          simp only [Bool.and_eq_true, beq_iff_eq] at hk3
                                          exact ⟨e', he', hk3.2⟩
                                        · cases hk3
                                      obtain ⟨e', he', her'⟩ := hkref
                                      rcases List.mem_append.mp hkr with hk | hk
                                      · refine List.mem_append_left _ (List.mem_filter.mpr ⟨hk, ?_⟩)
                                        have : (e'.ref != ea.ref) = true := by
                                          rw [her']; simpa using (fun h => hra h.symm)
                                        simp [deferredBy, he', this]
                                      · rcases List.mem_cons.mp hk with hk | hk
                                        · subst hk
                                          rw [hfe] at he'; cases he'
                                          simp only [examinedBy, hfe, Bool.and_eq_true, beq_iff_eq] at hexf
                                          exact absurd (hexf.1.symm.trans her') hra
                                        · exact List.mem_append_right _ hk
                                    exact EntryOK7.mono (fun k hk => List.mem_cons_of_mem _ (hsub k hk)) sameSt sameAtt
                                      (ih newQ st _ hinvN hloop j hjn e he hbranch)
                              split at h
                              · rename_i hf3
                                exact cont h (Or.inl hf3)
                              · split at h
                                · cases h
                                · rename_i fe2 hfe2
                                  rw [hfe] at hfe2; cases hfe2
                                  split at h
                                  · rename_i hfixver
                                    exact cont h (Or.inr hfixver)
                                  · cases h

end World
end Gittuf
