/-
Helper lemmas for C15 (Props/C15.lean): the shared prefix, the renaming built by the replay
loop, and the per-reference reading of getLatestRefTipsFromRSLEntries.
-/
import Gittuf.Spec.C15
namespace Gittuf.Sync

/-- `omega` does not look through the abbreviations `EId` / `Obj` when they are the type argument of `=`, `<`, `≤` -/
macro "omega_ids" : tactic => `(tactic| ((try dsimp only [EId, Obj] at *); omega))

/-! ### shared prefix -/

/-- the two suffixes start with different commits (or one of them is empty): the logs share
exactly the prefix -/
def Diverge : Log → Log → Prop
  | a :: _, b :: _ => a.id ≠ b.id
  | _, _ => True

theorem splitCommon_append (s lo ro : Log) (h : Diverge lo ro) :
    splitCommon (s ++ lo) (s ++ ro) = (s, lo, ro) := by
  induction s with
  | nil =>
    cases lo with
    | nil => cases ro <;> simp [splitCommon]
    | cons a as =>
      cases ro with
      | nil => simp [splitCommon]
      | cons b bs =>
        have : a.id ≠ b.id := h
        simp [splitCommon, this]
  | cons x xs ih => simp [splitCommon, ih]

/-! ### the renaming -/

/-- the map the replay loop builds when nothing is dropped: i-th entry ↦ `f + i` -/
def freshMap : Nat → Log → IdMap
  | _, [] => []
  | f, e :: es => (e.id, f) :: freshMap (f + 1) es

/-- annotations name only entries recorded before them (an id is a content hash: the id of a
later entry cannot be known when the annotation is written) -/
def ForwardFree : Log → Prop
  | [] => True
  | e :: es => (∀ i ∈ e.names, i ≠ e.id ∧ i ∉ Log.ids es) ∧ ForwardFree es

theorem ids_cons (e : Entry) (es : Log) : Log.ids (e :: es) = e.id :: Log.ids es := rfl

theorem mem_ids {l : Log} {i : EId} : i ∈ Log.ids l ↔ ∃ e ∈ l, e.id = i := by
  simp [Log.ids]

theorem ForwardFree_append {s l : Log} (h : ForwardFree (s ++ l)) :
    ForwardFree l ∧ ∀ a ∈ s, ∀ i ∈ a.names, i ∉ Log.ids l := by
  induction s with
  | nil => exact ⟨h, by simp⟩
  | cons x xs ih =>
    obtain ⟨hx, hrest⟩ := h
    obtain ⟨h1, h2⟩ := ih hrest
    refine ⟨h1, ?_⟩
    intro a ha i hi
    rcases List.mem_cons.1 ha with rfl | ha'
    · have hx2 : i ∉ Log.ids (xs ++ l) := (hx i hi).2
      intro hmem
      apply hx2
      have hmem' : i ∈ List.map (·.id) l := hmem
      show i ∈ List.map (·.id) (xs ++ l)
      rw [List.map_append]
      exact List.mem_append.2 (Or.inr hmem')
    · exact h2 a ha' i hi

theorem keys_freshMap (f : Nat) (l : Log) : (freshMap f l).map (·.1) = Log.ids l := by
  induction l generalizing f with
  | nil => rfl
  | cons e es ih => simp [freshMap, ids_cons, ih]

theorem lookup_none_of_not_mem_keys (m : IdMap) (i : EId) (h : i ∉ m.map (·.1)) : m.lookup i = none := by
  induction m with
  | nil => rfl
  | cons p ps ih =>
    obtain ⟨a, b⟩ := p
    simp only [List.map_cons, List.mem_cons, not_or] at h
    have hne : (i == a) = false := by simpa using h.1
    simp [List.lookup_cons, hne, ih h.2]

theorem lookup_freshMap_none {f : Nat} {l : Log} {i : EId} (h : i ∉ Log.ids l) :
    (freshMap f l).lookup i = none :=
  lookup_none_of_not_mem_keys _ _ (by rw [keys_freshMap]; exact h)

theorem lookup_freshMap_some {f : Nat} {l : Log} {i : EId} (h : i ∈ Log.ids l) :
    ∃ k, (freshMap f l).lookup i = some k ∧ f ≤ k ∧ k < f + l.length := by
  induction l generalizing f with
  | nil => simp [Log.ids] at h
  | cons e es ih =>
    by_cases hie : i = e.id
    · refine ⟨f, ?_, Nat.le_refl _, by simp⟩
      simp [freshMap, List.lookup_cons, hie]
    · have hmem : i ∈ Log.ids es := by
        rw [ids_cons] at h
        rcases List.mem_cons.1 h with h | h
        · exact absurd h hie
        · exact h
      obtain ⟨k, hk, h1, h2⟩ := ih (f := f + 1) hmem
      have hne : (i == e.id) = false := by simpa using hie
      refine ⟨k, ?_, ?_, ?_⟩
      · simp [freshMap, List.lookup_cons, hne, hk]
      · omega_ids
      · simp only [List.length_cons]; omega_ids

theorem applyMap_of_not_mem {f : Nat} {l : Log} {i : EId} (h : i ∉ Log.ids l) :
    applyMap (freshMap f l) i = i := by
  simp [applyMap, lookup_freshMap_none h]

theorem applyMap_ge {f : Nat} {l : Log} {i : EId} (h : i ∈ Log.ids l) :
    f ≤ applyMap (freshMap f l) i ∧ applyMap (freshMap f l) i < f + l.length := by
  obtain ⟨k, hk, h1, h2⟩ := lookup_freshMap_some (f := f) h
  simp [applyMap, hk, h1, h2]

theorem freshMap_inj {f : Nat} {l : Log} (hnd : (Log.ids l).Nodup) {i j : EId}
    (hi : i ∈ Log.ids l) (hj : j ∈ Log.ids l)
    (h : applyMap (freshMap f l) i = applyMap (freshMap f l) j) : i = j := by
  induction l generalizing f with
  | nil => simp [Log.ids] at hi
  | cons e es ih =>
    rw [ids_cons] at hnd hi hj
    have hnd' := (List.nodup_cons.1 hnd)
    by_cases hie : i = e.id <;> by_cases hje : j = e.id
    · rw [hie, hje]
    · exfalso
      have hjm : j ∈ Log.ids es := by
        rcases List.mem_cons.1 hj with h' | h'
        · exact absurd h' hje
        · exact h'
      have hne : (j == e.id) = false := by simpa using hje
      have h2 := (applyMap_ge (f := f + 1) hjm).1
      simp only [applyMap, freshMap, List.lookup_cons, hie, beq_self_eq_true, hne, Option.getD_some] at h h2
      omega_ids
    · exfalso
      have him : i ∈ Log.ids es := by
        rcases List.mem_cons.1 hi with h' | h'
        · exact absurd h' hie
        · exact h'
      have hne : (i == e.id) = false := by simpa using hie
      have h2 := (applyMap_ge (f := f + 1) him).1
      simp only [applyMap, freshMap, List.lookup_cons, hje, beq_self_eq_true, hne, Option.getD_some] at h h2
      omega_ids
    · have him : i ∈ Log.ids es := by
        rcases List.mem_cons.1 hi with h' | h'
        · exact absurd h' hie
        · exact h'
      have hjm : j ∈ Log.ids es := by
        rcases List.mem_cons.1 hj with h' | h'
        · exact absurd h' hje
        · exact h'
      have hne1 : (i == e.id) = false := by simpa using hie
      have hne2 : (j == e.id) = false := by simpa using hje
      apply ih (f := f + 1) hnd'.2 him hjm
      simpa [applyMap, freshMap, List.lookup_cons, hne1, hne2] using h

/-- ids that are smaller than `f` (all ids that existed before the replay) and are mapped to
the new name of a local-only entry are that entry's id -/
theorem applyMap_eq_imp {f : Nat} {l : Log} (hnd : (Log.ids l).Nodup) {i j : EId}
    (hj : j ∈ Log.ids l) (hi : i < f)
    (h : applyMap (freshMap f l) i = applyMap (freshMap f l) j) : i = j := by
  by_cases him : i ∈ Log.ids l
  · exact freshMap_inj hnd him hj h
  · rw [applyMap_of_not_mem him] at h
    have := (applyMap_ge (f := f) hj).1
    omega_ids

/-! ### the replay loop of the repaired variant is the renaming -/

theorem applyMap_append_self (m : IdMap) (i f : EId) (rest : IdMap) (h : i ∉ m.map (·.1)) :
    applyMap (m ++ (i, f) :: rest) i = f := by
  simp [applyMap, List.lookup_append, lookup_none_of_not_mem_keys m i h, List.lookup_cons]

theorem applyMap_append_irrelevant (m rest : IdMap) (i : EId) (h : i ∉ rest.map (·.1)) :
    applyMap (m ++ rest) i = applyMap m i := by
  simp [applyMap, List.lookup_append, lookup_none_of_not_mem_keys rest i h]

theorem replay_repaired (lo : Log) : ∀ (f : Nat) (m : IdMap),
    (Log.ids lo).Nodup → (∀ i ∈ Log.ids lo, i ∉ m.map (·.1)) → ForwardFree lo →
    replay Variant.repaired f m lo = (lo.map (renameEntry (m ++ freshMap f lo)), m ++ freshMap f lo) := by
  induction lo with
  | nil => intro f m _ _ _; simp [replay, freshMap]
  | cons e es ih =>
    intro f m hnd hkeys hff
    rw [ids_cons] at hnd
    obtain ⟨hnot, hnd'⟩ := List.nodup_cons.1 hnd
    obtain ⟨hnames, hff'⟩ := hff
    have hkeys' : ∀ i ∈ Log.ids es, i ∉ (m ++ [(e.id, f)]).map (·.1) := by
      intro i hi
      have h1 := hkeys i (by rw [ids_cons]; exact List.mem_cons_of_mem _ hi)
      have h2 : i ≠ e.id := fun h => hnot (h ▸ hi)
      simp [h1, h2]
    have hrec := ih (f + 1) (m ++ [(e.id, f)]) hnd' hkeys' hff'
    have hM : m ++ [(e.id, f)] ++ freshMap (f + 1) es = m ++ freshMap f (e :: es) := by
      simp [freshMap]
    rw [hM] at hrec
    have hid : applyMap (m ++ freshMap f (e :: es)) e.id = f :=
      applyMap_append_self m e.id f _ (hkeys e.id (by rw [ids_cons]; exact List.mem_cons_self))
    have hbody : ∀ ids s msg, e.body = .annotation ids s msg →
        renameBody (m ++ freshMap f (e :: es)) e.body = renameBody m e.body := by
      intro ids s msg hb
      rw [hb]
      simp only [renameBody]
      congr 1
      apply List.map_congr_left
      intro i hi
      apply applyMap_append_irrelevant
      have hn := hnames i (by simp [Entry.names, hb, hi])
      rw [keys_freshMap, ids_cons]
      simp [hn.1, hn.2]
    rw [replay]
    split
    · rename_i r t hb
      simp only [hrec, List.map_cons]
      congr 1
      simp [renameEntry, hid, hb, renameBody]
    · rename_i ids s msg hb
      simp only [hrec, List.map_cons]
      congr 1
      simp only [renameEntry, hid, hbody ids s msg hb]
      simp [hb, Variant.repaired]
    · rename_i r t u ue hb
      simp only [hrec, List.map_cons]
      simp [renameEntry, hid, hb, renameBody, Variant.repaired]

/-! ### ids of the renamed suffix -/

theorem mem_rename {ρ : IdMap} {l : Log} {x : Entry} : x ∈ rename ρ l ↔ ∃ e ∈ l, renameEntry ρ e = x := by
  simp [rename]

theorem rename_id_ge {f : Nat} {l : Log} {x : Entry} (h : x ∈ rename (freshMap f l) l) : f ≤ x.id := by
  obtain ⟨e, he, rfl⟩ := mem_rename.1 h
  exact (applyMap_ge (f := f) (mem_ids.2 ⟨e, he, rfl⟩)).1

theorem nodup_ids_rename {f : Nat} {l : Log} (hnd : (Log.ids l).Nodup) :
    (Log.ids (rename (freshMap f l) l)).Nodup := by
  unfold Log.ids rename at *
  unfold List.Nodup at *
  rw [List.pairwise_map] at hnd
  rw [List.pairwise_map, List.pairwise_map]
  refine List.Pairwise.imp_of_mem ?_ hnd
  intro a b ha hb hab heq
  apply hab
  exact freshMap_inj (f := f) (l := l) (by simpa [Log.ids, List.Nodup, List.pairwise_map] using hnd)
    (mem_ids.2 ⟨a, ha, rfl⟩) (mem_ids.2 ⟨b, hb, rfl⟩) heq

/-! ### the conflict check of the repaired variant is the declarative one -/

theorem changedRef_repaired (e : Entry) : changedRef Variant.repaired e = e.changes := by
  cases e with
  | mk id body => cases body <;> simp [changedRef, Entry.changes, Variant.repaired]

theorem conflicting_iff (v : Variant) (lo ro : Log) :
    conflicting v lo ro = true ↔
      ∃ a ∈ lo, ∃ b ∈ ro, ∃ r, changedRef v a = some r ∧ changedRef v b = some r := by
  simp only [conflicting, updatedRefs, List.any_eq_true, List.mem_filterMap, List.contains_iff_mem]
  constructor
  · rintro ⟨r, ⟨a, ha, har⟩, ⟨b, hb, hbr⟩⟩
    exact ⟨a, ha, b, hb, r, har, hbr⟩
  · rintro ⟨a, ha, b, hb, r, har, hbr⟩
    exact ⟨r, ⟨a, ha, har⟩, ⟨b, hb, hbr⟩⟩

theorem conflicting_repaired_iff (lo ro : Log) :
    conflicting Variant.repaired lo ro = true ↔ Conflict lo ro := by
  rw [conflicting_iff]
  simp only [changedRef_repaired, Conflict]

/-! ### reconcile on diverged logs -/

theorem reconcile_diverged (v : Variant) (f : Nat) (s lo ro : Log)
    (hs : s ≠ []) (hlo : lo ≠ []) (hro : ro ≠ []) (hd : Diverge lo ro) :
    reconcile v f (s ++ lo) (s ++ ro) =
      if conflicting v lo ro then { res := .error .conflict, log := s ++ lo }
      else { res := .ok (), log := s ++ ro ++ (replay v f [] lo).1, map := (replay v f [] lo).2 } := by
  obtain ⟨x, xs, rfl⟩ := List.exists_cons_of_ne_nil hs
  obtain ⟨a, as, rfl⟩ := List.exists_cons_of_ne_nil hlo
  obtain ⟨b, bs, rfl⟩ := List.exists_cons_of_ne_nil hro
  unfold reconcile
  rw [splitCommon_append _ _ _ hd]
  simp

/-! ### getLatestRefTipsFromRSLEntries, one reference at a time -/

/-- Search, newest entry first, for the first reference entry for `r` that no entry recorded
after it (`seen`) revokes. Written per reference and without the accumulated map. -/
def firstUnskipped (r : String) : List Entry → List Entry → Option Obj
  | [], _ => none
  | e :: es, seen =>
    match e.body with
    | .reference r' t =>
      if r' = r ∧ skippedBy seen e.id = false then some t else firstUnskipped r es (e :: seen)
    | _ => firstUnskipped r es (e :: seen)

theorem skippedBy_cons (a : Entry) (l : List Entry) (i : EId) :
    skippedBy (a :: l) i = (annSkips a i || skippedBy l i) := by
  simp [skippedBy]

theorem annSkips_of_not_annotation {e : Entry} (h : ∀ ids s m, e.body ≠ .annotation ids s m) (i : EId) :
    annSkips e i = false := by
  unfold annSkips
  split
  · rename_i ids m hb; exact absurd hb (h ids true m)
  · rfl

theorem refTipsLoop_lookup (r : String) (es : List Entry) :
    ∀ (anns seen : List Entry) (tips : List (String × Obj)),
      (∀ i, skippedBy anns i = skippedBy seen i) →
      (refTipsLoop es anns tips).lookup r = (tips.lookup r).or (firstUnskipped r es seen) := by
  induction es with
  | nil => intro anns seen tips _; simp [refTipsLoop, firstUnskipped]
  | cons e es ih =>
    intro anns seen tips hinv
    rw [refTipsLoop, firstUnskipped]
    split
    · -- reference entry
      rename_i r' t hb
      have hinv' : ∀ i, skippedBy anns i = skippedBy (e :: seen) i := by
        intro i
        rw [skippedBy_cons, annSkips_of_not_annotation (by simp [hb]), Bool.false_or, hinv]
      simp only [hb]
      by_cases hhas : (tips.lookup r').isSome = true
      · simp only [hhas, if_true]
        rw [ih anns (e :: seen) tips hinv']
        by_cases hr : r' = r
        · subst hr
          obtain ⟨x, hx⟩ := Option.isSome_iff_exists.1 hhas
          simp [hx]
        · simp [hr]
      · simp only [hhas, Bool.false_eq_true, if_false]
        have hnone : tips.lookup r' = none := by
          cases h : tips.lookup r' with
          | none => rfl
          | some x => simp [h] at hhas
        by_cases hsk : skippedBy anns e.id = true
        · simp only [hsk, if_true]
          rw [ih anns (e :: seen) tips hinv']
          have : skippedBy seen e.id = true := by rw [← hinv]; exact hsk
          simp [this]
        · simp only [hsk, Bool.false_eq_true, if_false]
          rw [ih anns (e :: seen) (tips ++ [(r', t)]) hinv']
          have hsk' : skippedBy seen e.id = false := by
            rw [← hinv]; simpa using hsk
          by_cases hr : r' = r
          · subst hr
            simp [List.lookup_append, hnone, List.lookup_cons, hsk']
          · have hne : (r == r') = false := by
              simp only [beq_eq_false_iff_ne, ne_eq]
              exact fun h => hr h.symm
            simp [List.lookup_append, List.lookup_cons, hne, hr]
    · -- propagation entry: nothing is recorded
      rename_i r' t u ue hb
      simp only [hb]
      apply ih
      intro i
      rw [skippedBy_cons, annSkips_of_not_annotation (by simp [hb]), Bool.false_or, hinv]
    · -- annotation
      rename_i ids sk msg hb
      simp only [hb]
      apply ih
      intro i
      rw [skippedBy_cons, skippedBy_cons, hinv]

theorem firstUnskipped_sound (r : String) (t : Obj) (es : List Entry) :
    ∀ seen, firstUnskipped r es seen = some t →
      ∃ pre e post, es = pre ++ e :: post ∧ e.body = .reference r t ∧
        skippedBy (pre.reverse ++ seen) e.id = false ∧
        ∀ pre1 x pre2 t', pre = pre1 ++ x :: pre2 → x.body = .reference r t' →
          skippedBy (pre1.reverse ++ seen) x.id = true := by
  induction es with
  | nil => intro seen h; simp [firstUnskipped] at h
  | cons e es ih =>
    intro seen h
    have step : firstUnskipped r es (e :: seen) = some t →
        (∀ t', e.body = .reference r t' → skippedBy seen e.id = true) →
        ∃ pre e' post, e :: es = pre ++ e' :: post ∧ e'.body = .reference r t ∧
          skippedBy (pre.reverse ++ seen) e'.id = false ∧
          ∀ pre1 x pre2 t', pre = pre1 ++ x :: pre2 → x.body = .reference r t' →
            skippedBy (pre1.reverse ++ seen) x.id = true := by
      intro hrest hskip
      obtain ⟨pre, e', post, hes, hb, hns, hall⟩ := ih (e :: seen) hrest
      refine ⟨e :: pre, e', post, by simp [hes], hb, by simpa using hns, ?_⟩
      intro pre1 x pre2 t' hpre hx
      cases pre1 with
      | nil =>
        simp only [List.nil_append, List.cons.injEq] at hpre
        obtain ⟨rfl, _⟩ := hpre
        simpa using hskip t' hx
      | cons y ys =>
        simp only [List.cons_append, List.cons.injEq] at hpre
        obtain ⟨rfl, hpre'⟩ := hpre
        have := hall ys x pre2 t' hpre' hx
        simpa using this
    rw [firstUnskipped] at h
    split at h
    · rename_i r' t0 hb
      by_cases hc : r' = r ∧ skippedBy seen e.id = false
      · simp only [hc, and_self, if_true, Option.some.injEq] at h
        subst h
        obtain ⟨hr, hs⟩ := hc
        subst hr
        exact ⟨[], e, es, rfl, hb, by simpa using hs, by intro pre1 x pre2 t' hp; cases pre1 <;> simp at hp⟩
      · rw [if_neg hc] at h
        apply step h
        intro t' hb'
        rw [hb] at hb'
        simp only [Body.reference.injEq] at hb'
        obtain ⟨hr, _⟩ := hb'
        cases hsk : skippedBy seen e.id with
        | true => rfl
        | false => exact absurd ⟨hr, hsk⟩ hc
    · rename_i hnb
      apply step h
      intro t' hb'
      exact absurd hb' (hnb r t')

/-! ### reference updates of sync -/

theorem lookup_cons_ite (a : String) (b : Obj) (ps : Refs) (x : String) :
    List.lookup x ((a, b) :: ps) = if x = a then some b else ps.lookup x := by
  by_cases h : x = a
  · simp [List.lookup_cons, h]
  · have : (x == a) = false := by simpa using h
    simp [List.lookup_cons, h, this]

theorem lookup_map_set (refs : Refs) (r : String) (t : Obj) (x : String) :
    (refs.map (fun p => if p.1 == r then (r, t) else p)).lookup x =
      if x = r then (refs.lookup r).map (fun _ => t) else refs.lookup x := by
  induction refs with
  | nil => simp
  | cons p ps ih =>
    obtain ⟨a, b⟩ := p
    simp only [List.map_cons, lookup_cons_ite]
    by_cases har : a = r <;> by_cases hxr : x = r <;> by_cases hxa : x = a <;>
      simp_all [lookup_cons_ite]

theorem lookup_setRef (refs : Refs) (r : String) (t : Obj) (x : String) :
    (setRef refs r t).lookup x = if x = r then some t else refs.lookup x := by
  unfold setRef
  split
  · rename_i hs
    rw [lookup_map_set]
    obtain ⟨v, hv⟩ := Option.isSome_iff_exists.1 hs
    simp [hv]
  · rename_i hs
    have hn : refs.lookup r = none := by
      cases h : refs.lookup r with
      | none => rfl
      | some v => simp [h] at hs
    by_cases hxr : x = r
    · subst hxr; simp [List.lookup_append, hn, List.lookup_cons]
    · have : (x == r) = false := by simpa using hxr
      simp [List.lookup_append, List.lookup_cons, this, hxr]

theorem lookup_foldl_setRef (x : String) (upd : Refs) : ∀ (refs : Refs),
    (upd.foldl (fun acc p => setRef acc p.1 p.2) refs).lookup x = refs.lookup x ∨
      ∃ t, (x, t) ∈ upd ∧ (upd.foldl (fun acc p => setRef acc p.1 p.2) refs).lookup x = some t := by
  induction upd with
  | nil => intro refs; exact Or.inl rfl
  | cons p ps ih =>
    intro refs
    simp only [List.foldl_cons]
    rcases ih (setRef refs p.1 p.2) with h | ⟨t, ht, hl⟩
    · rw [h, lookup_setRef]
      by_cases hx : x = p.1
      · right
        refine ⟨p.2, ?_, by simp [hx]⟩
        subst hx
        simp
      · left; simp [hx]
    · exact Or.inr ⟨t, List.mem_cons_of_mem _ ht, hl⟩

theorem classifyTips_fst (knows : Obj → Obj → Bool) (lrefs : Refs) (tips : Refs) :
    ∀ (acc : Refs × List String),
      (∀ p ∈ acc.1, ∃ old, lrefs.lookup p.1 = some old ∧ knows p.2 old = true) →
      ∀ p ∈ (tips.foldl (fun (acc : Refs × List String) (p : String × Obj) =>
        match lrefs.lookup p.1 with
        | none => acc
        | some lt => if knows p.2 lt then (acc.1 ++ [p], acc.2) else (acc.1, acc.2 ++ [p.1])) acc).1,
        (p ∈ acc.1 ∨ p ∈ tips) ∧ ∃ old, lrefs.lookup p.1 = some old ∧ knows p.2 old = true := by
  induction tips with
  | nil => intro acc hacc p hp; exact ⟨Or.inl hp, hacc p hp⟩
  | cons q qs ih =>
    intro acc hacc p hp
    simp only [List.foldl_cons] at hp
    cases hq : lrefs.lookup q.1 with
    | none =>
      simp only [hq] at hp
      obtain ⟨h1, h2⟩ := ih acc hacc p hp
      exact ⟨h1.imp id (List.mem_cons_of_mem _), h2⟩
    | some lt =>
      simp only [hq] at hp
      by_cases hk : knows q.2 lt = true
      · simp only [hk, if_true] at hp
        obtain ⟨h1, h2⟩ := ih (acc.1 ++ [q], acc.2) (by
          intro p' hp'
          rcases List.mem_append.1 hp' with h | h
          · exact hacc p' h
          · simp only [List.mem_singleton] at h; subst h; exact ⟨lt, hq, hk⟩) p hp
        refine ⟨?_, h2⟩
        rcases h1 with h | h
        · rcases List.mem_append.1 h with h | h
          · exact Or.inl h
          · simp only [List.mem_singleton] at h; subst h; exact Or.inr List.mem_cons_self
        · exact Or.inr (List.mem_cons_of_mem _ h)
      · simp only [hk, Bool.false_eq_true, if_false] at hp
        obtain ⟨h1, h2⟩ := ih (acc.1, acc.2 ++ [q.1]) hacc p hp
        exact ⟨h1.imp id (List.mem_cons_of_mem _), h2⟩

theorem upd_fact (knows : Obj → Obj → Bool) (tips lrefs : Refs) (ow : Bool) (ff : Refs) (div : List String)
    (hc : classifyTips knows tips lrefs = (ff, div)) (hcond : div = [] ∨ ow = true) (x : String) :
    ((ff ++ tips.filter (fun p => div.contains p.1)).foldl (fun acc p => setRef acc p.1 p.2) lrefs).lookup x = lrefs.lookup x ∨
      ∃ t, ((ff ++ tips.filter (fun p => div.contains p.1)).foldl (fun acc p => setRef acc p.1 p.2) lrefs).lookup x = some t ∧
        (x, t) ∈ tips ∧ (ow = true ∨ ∃ old, lrefs.lookup x = some old ∧ knows t old = true) := by
  rcases lookup_foldl_setRef x (ff ++ tips.filter (fun p => div.contains p.1)) lrefs with h | ⟨t, ht, hl⟩
  · exact Or.inl h
  · right
    refine ⟨t, hl, ?_⟩
    rcases List.mem_append.1 ht with h | h
    · have hff : ff = (classifyTips knows tips lrefs).1 := by rw [hc]
      rw [hff] at h
      obtain ⟨h1, old, h2, h3⟩ := classifyTips_fst knows lrefs tips ([], []) (by simp) (x, t) h
      refine ⟨?_, Or.inr ⟨old, h2, h3⟩⟩
      rcases h1 with h1 | h1
      · simp at h1
      · exact h1
    · obtain ⟨h1, h2⟩ := List.mem_filter.1 h
      refine ⟨h1, Or.inl ?_⟩
      rcases hcond with hd | ho
      · subst hd; simp at h2
      · exact ho

theorem lookup_of_mem_nodup (tips : Refs) (x : String) (t : Obj) (h : (tips.map (·.1)).Nodup)
    (hm : (x, t) ∈ tips) : tips.lookup x = some t := by
  induction tips with
  | nil => simp at hm
  | cons p ps ih =>
    obtain ⟨a, b⟩ := p
    simp only [List.map_cons, List.nodup_cons] at h
    rw [lookup_cons_ite]
    rcases List.mem_cons.1 hm with heq | hmem
    · simp only [Prod.mk.injEq] at heq
      simp [heq.1, heq.2]
    · have hne : x ≠ a := by
        intro hxa
        apply h.1
        rw [← hxa]
        exact List.mem_map.2 ⟨(x, t), hmem, rfl⟩
      simp [hne, ih h.2 hmem]

theorem refTipsLoop_keys (es : List Entry) : ∀ (anns : List Entry) (tips : Refs),
    (tips.map (·.1)).Nodup → ((refTipsLoop es anns tips).map (·.1)).Nodup := by
  induction es with
  | nil => intro anns tips h; simpa [refTipsLoop] using h
  | cons e es ih =>
    intro anns tips h
    rw [refTipsLoop]
    split
    · rename_i r t hb
      split
      · exact ih anns tips h
      · rename_i hhas
        split
        · exact ih anns tips h
        · apply ih
          have hn : tips.lookup r = none := by
            cases hl : tips.lookup r with
            | none => rfl
            | some v => simp [hl] at hhas
          rw [List.map_append, List.nodup_append]
          refine ⟨h, by simp, ?_⟩
          intro a ha b hb'
          simp only [List.map_cons, List.map_nil, List.mem_singleton] at hb'
          subst hb'
          obtain ⟨p, hp, rfl⟩ := List.mem_map.1 ha
          have := (List.lookup_eq_none_iff.1 hn) p hp
          intro heq
          simp [heq] at this
    · exact ih anns tips h
    · exact ih _ tips h

theorem refTips_keys (es : Log) : ((refTips es).map (·.1)).Nodup :=
  refTipsLoop_keys es.reverse [] [] (by simp)

/-- sync_moves with membership in the reported tips -/
theorem sync_moves_mem (knows : Obj → Obj → Bool) (ow : Bool) (l r : Repo) (x : String) :
    (sync knows ow l r).2.1.refs.lookup x = l.refs.lookup x ∨
      ∃ t, (sync knows ow l r).2.1.refs.lookup x = some t ∧
        (x, t) ∈ refTips (splitCommon l.log r.log).2.2 ∧
        (ow = true ∨ ∃ old, l.refs.lookup x = some old ∧ knows t old = true) := by
  unfold sync
  simp only []
  split
  · exact Or.inl rfl
  split
  · exact Or.inl rfl
  split
  · split <;> exact Or.inl rfl
  split
  · split
    · exact Or.inl rfl
    · rename_i hcond
      apply upd_fact knows _ _ ow _ _ rfl
      cases hdiv : (classifyTips knows (refTips (splitCommon l.log r.log).2.snd) l.refs).snd with
      | nil => exact Or.inl hdiv
      | cons d ds => right; simpa [hdiv] using hcond
  split
  · exact Or.inl rfl
  split
  · exact Or.inl rfl
  · rename_i how _
    apply upd_fact knows _ _ ow _ _ rfl
    right; simpa using how

end Gittuf.Sync
