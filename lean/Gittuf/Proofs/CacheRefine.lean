import Gittuf.Props.C08
namespace Gittuf

theorem find?_reverse_eq_getLast?_filter {α} (p : α → Bool) (l : List α) :
    l.reverse.find? p = (l.filter p).getLast? := by
  induction l with
  | nil => simp
  | cons a l ih =>
    simp only [List.reverse_cons, List.find?_append, ih, List.filter_cons]
    by_cases ha : p a = true
    · simp only [ha, if_true, List.find?_cons_of_pos]
      cases h : (l.filter p).getLast? with
      | none =>
        have : l.filter p = [] := by simpa using h
        simp [this]
      | some x =>
        simp only [Option.some_or]
        have hne : l.filter p ≠ [] := by intro h0; simp [h0] at h
        rw [List.getLast?_cons_of_ne_nil hne] at *
        exact h.symm ▸ rfl
    · simp only [ha, Bool.false_eq_true, if_false]
      have : [a].find? p = none := by simp [ha]
      simp [this]

theorem range_filter_lt (n i : Nat) (h : i ≤ n) :
    (List.range n).filter (fun j => decide (j < i)) = List.range i := by
  induction n with
  | zero =>
    have : i = 0 := by omega
    subst this; simp
  | succ n ih =>
    rw [List.range_succ, List.filter_append]
    by_cases hi : i ≤ n
    · rw [ih hi]
      have : ¬ n < i := by omega
      simp [this]
    · have hin : i = n + 1 := by omega
      subst hin
      have h1 : (List.range n).filter (fun j => decide (j < n + 1)) = List.range n := by
        rw [List.filter_eq_self]
        intro a ha
        have := List.mem_range.mp ha
        simp; omega
      rw [h1]
      simp [List.range_succ]

namespace World

/-- no propagation entry was recorded for the policy reference (the cache only indexes reference entries) -/
def NoPolicyProp (W : World) : Prop :=
  ∀ (j : Nat) (e : LogEntry), W.log[j]? = some e → e.ref = policyRef → isUpdater e = true → e.kind = .ref

/-- **A cache that covers the log answers policy look-ups exactly as the scan of the log does**: for a
freshly populated cache and any entry that is not itself a policy entry, the cached lookup
(`FindPolicyEntryNumberForEntry`) returns what `GetLatestReferenceUpdaterEntry(ForReference(policy),
BeforeEntryID(entry))` returns — for every history. -/
theorem C08_lookup_refines (W : World) (i : Nat) (hi : i ≤ W.log.length) (hnp : W.NoPolicyProp)
    (hnot : W.isRefEntryFor policyRef i = false) :
    Cache.findFor W.populateCache.policy i = W.latestFor policyRef i := by
  have hpred : ∀ j, (match W.log[j]? with
      | none => false
      | some e => isUpdater e && e.ref == policyRef && (!false || e.kind == .ref) &&
                  (!(false && e.kind == .ref) || !W.skipped j)) = W.isRefEntryFor policyRef j := by
    intro j
    unfold isRefEntryFor
    cases he : W.log[j]? with
    | none => rfl
    | some e =>
      simp only [Bool.not_false, Bool.true_or, Bool.and_true, Bool.false_and]
      by_cases hr : e.ref = policyRef
      · by_cases hu : isUpdater e = true
        · have := hnp j e he hr hu
          simp [hr, hu, this]
        · have hu' : isUpdater e = false := by simpa using hu
          have hk : e.kind = .ann := by
            unfold isUpdater at hu'
            cases hkk : e.kind <;> simp_all
          simp [hu', hk]
      · have : (e.ref == policyRef) = false := by simpa using hr
        simp [this]
  have hlat : W.latestFor policyRef i = (List.range i).reverse.find? (W.isRefEntryFor policyRef) := by
    unfold latestFor below
    congr 1
    funext j
    exact hpred j
  rw [hlat, find?_reverse_eq_getLast?_filter]
  unfold Cache.findFor populateCache
  have hnc : ((List.range W.log.length).filter (W.isRefEntryFor policyRef)).contains i = false := by
    simp [List.mem_filter, hnot]
  simp only [hnc, Bool.false_eq_true, if_false]
  rw [List.filter_filter]
  have : (List.range W.log.length).filter (fun a => decide (a < i) && W.isRefEntryFor policyRef a)
       = ((List.range W.log.length).filter (fun j => decide (j < i))).filter (W.isRefEntryFor policyRef) := by
    rw [List.filter_filter]
    congr 1
    funext a
    exact Bool.and_comm _ _
  rw [this, range_filter_lt _ _ hi]

end World
end Gittuf
