import Gittuf.Spec.C05
namespace Gittuf

theorem accepted_mem (d : Digest) (sigs : List Sig) (avail : List KeyId) (k : KeyId)
    (h : k ∈ acceptedKeysAux d sigs avail) :
    k ∈ avail ∧ ∃ s ∈ sigs, s.okFor k d = true := by
  induction sigs generalizing avail with
  | nil => simp [acceptedKeysAux] at h
  | cons s ss ih =>
    unfold acceptedKeysAux at h
    split at h
    · rename_i k' hk'
      have hk'mem := List.mem_of_find?_eq_some hk'
      have hk'ok := List.find?_some (p := fun k => s.okFor k d) hk'
      rcases List.mem_cons.mp h with h | h
      · subst h
        exact ⟨hk'mem, s, List.mem_cons_self, hk'ok⟩
      · obtain ⟨h1, s', hs', hok⟩ := ih _ h
        exact ⟨List.mem_of_mem_erase h1, s', List.mem_cons_of_mem _ hs', hok⟩
    · obtain ⟨h1, s', hs', hok⟩ := ih _ h
      exact ⟨h1, s', List.mem_cons_of_mem _ hs', hok⟩

theorem gitPhase_some (ps : List Principal) (g : Option Sig) (gd : Digest) (p : PId) (k : KeyId)
    (h : gitPhase ps g gd = some (p, k)) :
    ∃ P ∈ ps, P.id = p ∧ k ∈ P.keys ∧ GitValid g gd k := by
  unfold gitPhase at h
  split at h
  · simp at h
  · rename_i s
    obtain ⟨P, hP, hPk⟩ := List.exists_of_findSome?_eq_some h
    simp only [Option.map_eq_some_iff] at hPk
    obtain ⟨k', hk', heq⟩ := hPk
    simp only [Prod.mk.injEq] at heq
    obtain ⟨h1, h2⟩ := heq
    subst h2
    exact ⟨P, hP, h1, List.mem_of_find?_eq_some hk', s, rfl, List.find?_some (p := fun k => s.okFor k gd) hk'⟩

structure EnvInv (v : Verifier) (g : Option Sig) (gd : Digest) (env : Option Envelope)
    (st : VState) (f : PId → KeyId) (pg : Option PId) : Prop where
  nodup : st.1.Nodup
  cred : ∀ p ∈ st.1, ∃ P ∈ v.principals, P.id = p ∧ f p ∈ P.keys ∧
            ((pg = some p ∧ GitValid g gd (f p)) ∨ EnvValid env (f p))
  inUsed : ∀ p ∈ st.1, f p ∈ st.2
  inj : ∀ p ∈ st.1, ∀ q ∈ st.1, f p = f q → p = q

theorem envStep_inv (v : Verifier) (g : Option Sig) (gd : Digest) (e : Envelope)
    (st st' : VState) (P : Principal) (hP : P ∈ v.principals) (f : PId → KeyId) (pg : Option PId)
    (hinv : EnvInv v g gd (some e) st f pg) (hstep : envStep e st P = .ok st') :
    ∃ f', EnvInv v g gd (some e) st' f' pg := by
  unfold envStep at hstep
  split at hstep
  · cases hstep; exact ⟨f, hinv⟩
  · rename_i hnot
    simp only at hstep
    split at hstep
    · cases hstep; exact ⟨f, hinv⟩
    · split at hstep
      · cases hstep
      · split at hstep
        · cases hstep; exact ⟨f, hinv⟩
        · rename_i hacc
          cases hstep
          -- pick the first accepted key
          cases hacc' : acceptedKeys e (P.keys.filter fun k => !st.2.contains k) with
          | nil => rw [hacc'] at hacc; exact absurd List.isEmpty_nil hacc
          | cons k rest =>
            have hk : k ∈ acceptedKeysAux e.digest e.sigs (P.keys.filter fun k => !st.2.contains k) := by
              unfold acceptedKeys at hacc'; rw [hacc']; exact List.mem_cons_self
            obtain ⟨hkavail, s, hs, hok⟩ := accepted_mem _ _ _ _ hk
            have hkP : k ∈ P.keys := (List.mem_filter.mp hkavail).1
            have hknot : k ∉ st.2 := by
              have := (List.mem_filter.mp hkavail).2
              simpa using this
            have hPnot : P.id ∉ st.1 := by simpa using hnot
            refine ⟨fun x => if x = P.id then k else f x, ?_, ?_, ?_, ?_⟩
            · -- nodup
              show (st.1 ++ [P.id]).Nodup
              rw [List.nodup_append]
              refine ⟨hinv.nodup, by simp, ?_⟩
              intro a ha b hb
              simp at hb; subst hb
              intro h; subst h; exact hPnot ha
            · intro p hp
              show ∃ P' ∈ v.principals, P'.id = p ∧ _
              simp only [List.mem_append, List.mem_singleton] at hp
              rcases hp with hp | hp
              · have hne : p ≠ P.id := fun h => hPnot (h ▸ hp)
                obtain ⟨P', hP', hid, hkeys, hval⟩ := hinv.cred p hp
                refine ⟨P', hP', hid, ?_, ?_⟩ <;> simp only [hne, if_false] <;> assumption
              · subst hp
                refine ⟨P, hP, rfl, ?_, ?_⟩
                · simp [hkP]
                · right; simp only [if_true]; exact ⟨e, s, rfl, hs, hok⟩
            · intro p hp
              show (if p = P.id then k else f p) ∈ st.2 ++ k :: rest
              simp only [List.mem_append, List.mem_singleton] at hp
              rcases hp with hp | hp
              · have hne : p ≠ P.id := fun h => hPnot (h ▸ hp)
                simp only [hne, if_false]
                exact List.mem_append_left _ (hinv.inUsed p hp)
              · subst hp
                simp only [if_true]
                exact List.mem_append_right _ List.mem_cons_self
            · intro p hp q hq
              simp only [List.mem_append, List.mem_singleton] at hp hq
              rcases hp with hp | hp <;> rcases hq with hq | hq
              · have hne : p ≠ P.id := fun h => hPnot (h ▸ hp)
                have hne' : q ≠ P.id := fun h => hPnot (h ▸ hq)
                simp only [hne, hne', if_false]
                exact hinv.inj p hp q hq
              · have hne : p ≠ P.id := fun h => hPnot (h ▸ hp)
                subst hq
                simp only [hne, if_false, if_true]
                intro h
                exact absurd (h ▸ hinv.inUsed p hp) hknot
              · have hne' : q ≠ P.id := fun h => hPnot (h ▸ hq)
                subst hp
                simp only [hne', if_false, if_true]
                intro h
                exact absurd (h ▸ hinv.inUsed q hq) hknot
              · subst hp; subst hq; intro _; rfl

theorem envPhase_inv (v : Verifier) (g : Option Sig) (gd : Digest) (e : Envelope)
    (ps : List Principal) (hps : ∀ P ∈ ps, P ∈ v.principals)
    (st st' : VState) (f : PId → KeyId) (pg : Option PId)
    (hinv : EnvInv v g gd (some e) st f pg) (h : envPhase e ps st = .ok st') :
    ∃ f', EnvInv v g gd (some e) st' f' pg := by
  induction ps generalizing st f with
  | nil => simp [envPhase] at h; cases h; exact ⟨f, hinv⟩
  | cons P ps ih =>
    unfold envPhase at h
    split at h
    · cases h
    · rename_i st1 hst1
      obtain ⟨f1, hinv1⟩ := envStep_inv v g gd e st st1 P (hps P List.mem_cons_self) f pg hinv hst1
      exact ih (fun Q hQ => hps Q (List.mem_cons_of_mem _ hQ)) st1 f1 hinv1 h

end Gittuf
