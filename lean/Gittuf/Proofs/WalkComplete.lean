import Gittuf.Proofs.WalkSound
/-
C06: completeness of the work-list against the declarative walk (no hypothesis on
rule names: the work-list cuts a file off only where the declarative walk does).
-/
namespace Gittuf.Walk

/-- files whose rules have been queued so far: the primary one and those found under a seen name -/
def EnteredSoFar (P : Policy) (seen : List String) (G : RuleFile) : Prop :=
  P.primary = some G ∨ ∃ n ∈ seen, P.delegated? n = some G

/-- the rule has been consulted by the work-list: if it matches, its verifier was
emitted and its delegated file (if any) has been queued -/
def Processed (P : Policy) (m : Rule → Bool) (seen : List String) (acc : List WVerifier) (r : Rule) : Prop :=
  m r = true → (∃ v ∈ acc, VerifierOf v r) ∧ ((P.delegated? r.name).isSome = true → r.name ∈ seen)

def FileOK (P : Policy) (m : Rule → Bool) (cur : List Rule) (groups : List (List Rule))
    (seen : List String) (acc : List WVerifier) (F : RuleFile) : Prop :=
  F.rules ∈ groups ∨
  (∃ pre, F.rules = pre ++ cur ∧ ∀ r' ∈ pre, Processed P m seen acc r') ∨
  (∀ r, ConsultedIn P m F r → Processed P m seen acc r)

structure KInv (P : Policy) (m : Rule → Bool) (cur : List Rule) (groups : List (List Rule))
    (seen : List String) (acc : List WVerifier) : Prop where
  tgt : targetsName ∈ seen
  filesOk : ∀ F, EnteredSoFar P seen F → FileOK P m cur groups seen acc F

theorem Processed.mono {P m seen acc seen' acc' r} (h : Processed P m seen acc r)
    (hs : ∀ n ∈ seen, n ∈ seen') (ha : ∀ v ∈ acc, v ∈ acc') : Processed P m seen' acc' r := by
  intro hm
  obtain ⟨⟨v, hv, hvo⟩, h2⟩ := h hm
  exact ⟨⟨v, ha v hv, hvo⟩, fun hd => hs _ (h2 hd)⟩

/-- a file whose remaining group has at most its last rule left is finished -/
theorem finished_of_short {P m seen acc} {F : RuleFile} {pre cur : List Rule}
    (hc : cur = [] ∨ ∃ a, cur = [a]) (hsplit : F.rules = pre ++ cur)
    (hpre : ∀ r' ∈ pre, Processed P m seen acc r') :
    ∀ r, ConsultedIn P m F r → Processed P m seen acc r := by
  intro r ⟨pre₂, post₂, hs2, hne, _⟩
  have hr : r ∈ active F.rules := mem_active_of_split hs2 hne
  apply hpre
  unfold active at hr
  rw [hsplit] at hr
  rcases hc with hc | ⟨a, hc⟩ <;> subst hc
  · rw [List.append_nil] at hr
    exact List.dropLast_subset _ hr
  · rw [List.dropLast_append_of_ne_nil (by simp)] at hr
    simpa using hr

/-- a file whose current rule cuts is finished once that rule is processed -/
theorem finished_of_cut {P m seen acc} {F : RuleFile} {pre rest : List Rule} {d : Rule}
    (hsplit : F.rules = pre ++ d :: rest) (hcut : Cuts P m d)
    (hpre : ∀ r' ∈ pre, Processed P m seen acc r') (hd : Processed P m seen acc d) :
    ∀ r, ConsultedIn P m F r → Processed P m seen acc r := by
  intro r ⟨pre₂, post₂, hs2, _, hnocut⟩
  rw [hsplit] at hs2
  rcases List.append_eq_append_iff.mp hs2 with ⟨a', h1, h2⟩ | ⟨c', h1, h2⟩
  · -- pre₂ = pre ++ a', d :: rest = a' ++ r :: post₂
    cases a' with
    | nil =>
      simp only [List.nil_append, List.cons.injEq] at h2
      rw [← h2.1]; exact hd
    | cons y ys =>
      simp only [List.cons_append, List.cons.injEq] at h2
      exfalso
      apply hnocut d _ hcut
      rw [h1, h2.1]
      simp
  · -- pre = pre₂ ++ c', r :: post₂ = c' ++ d :: rest
    cases c' with
    | nil =>
      simp only [List.nil_append, List.cons.injEq] at h2
      rw [h2.1]; exact hd
    | cons y ys =>
      simp only [List.cons_append, List.cons.injEq] at h2
      apply hpre
      rw [h1, h2.1]
      simp

theorem KInv.pop {P m cur g gs seen acc} (h : KInv P m cur (g :: gs) seen acc)
    (hc : cur = [] ∨ ∃ a, cur = [a]) : KInv P m g gs seen acc := by
  refine ⟨h.tgt, fun F hF => ?_⟩
  rcases h.filesOk F hF with hw | ⟨pre, hs, hp⟩ | hfin
  · rcases List.mem_cons.mp hw with hw | hw
    · exact Or.inr (Or.inl ⟨[], by simpa using hw, by simp⟩)
    · exact Or.inl hw
  · exact Or.inr (Or.inr (finished_of_short hc hs hp))
  · exact Or.inr (Or.inr hfin)

/-- one consultation step, in all its branches -/
theorem KInv.consult {P m} {d x : Rule} {xs : List Rule} {groups seen acc cur' groups' seen' acc'}
    (h : KInv P m (d :: x :: xs) groups seen acc)
    (hs : ∀ n ∈ seen, n ∈ seen') (ha : ∀ v ∈ acc, v ∈ acc') (hg : ∀ g ∈ groups, g ∈ groups')
    (hd : Processed P m seen' acc' d)
    (hcur : cur' = x :: xs ∨ (cur' = [] ∧ Cuts P m d))
    (hnew : ∀ F, EnteredSoFar P seen' F → EnteredSoFar P seen F ∨ F.rules ∈ groups') :
    KInv P m cur' groups' seen' acc' := by
  refine ⟨hs _ h.tgt, fun F hF => ?_⟩
  rcases hnew F hF with hold | hq
  · rcases h.filesOk F hold with hw | ⟨pre, hsp, hp⟩ | hfin
    · exact Or.inl (hg _ hw)
    · have hp' : ∀ r' ∈ pre, Processed P m seen' acc' r' := fun r' hr' => (hp r' hr').mono hs ha
      rcases hcur with hc | ⟨hc, hcut⟩
      · subst hc
        refine Or.inr (Or.inl ⟨pre ++ [d], by simp [hsp], ?_⟩)
        intro r' hr'
        rcases List.mem_append.mp hr' with hr' | hr'
        · exact hp' r' hr'
        · simp only [List.mem_singleton] at hr'
          subst hr'
          exact hd
      · exact Or.inr (Or.inr (finished_of_cut hsp hcut hp' hd))
    · exact Or.inr (Or.inr (fun r hr => (hfin r hr).mono hs ha))
  · exact Or.inl hq

/-- what the invariant gives when the work-list is empty -/
theorem KInv.final {P m cur seen acc} (h : KInv P m cur [] seen acc) (hc : cur = [] ∨ ∃ a, cur = [a]) :
    ∀ F r, Consulted P m F r → m r = true → ∃ v ∈ acc, VerifierOf v r := by
  have hfin : ∀ F, EnteredSoFar P seen F → ∀ r, ConsultedIn P m F r → Processed P m seen acc r := by
    intro F hF
    rcases h.filesOk F hF with hw | ⟨pre, hs, hp⟩ | hfin
    · cases hw
    · exact finished_of_short hc hs hp
    · exact hfin
  have hent : ∀ F, Entered P m F → EnteredSoFar P seen F := by
    intro F hF
    induction hF with
    | primary hp => exact Or.inl hp
    | deleg _ hcons hm hdel ih =>
      have := (hfin _ ih _ hcons hm).2 (by rw [hdel]; rfl)
      exact Or.inr ⟨_, this, hdel⟩
  intro F r ⟨hF, hcons⟩ hm
  exact (hfin F (hent F hF) r hcons hm).1

theorem walk_complete_aux (m : Rule → Bool) (P : Policy) :
    ∀ (fuel : Nat) (cur : List Rule) (groups : List (List Rule)) (seen : List String) (allP : PMap)
      (acc R : List WVerifier), KInv P m cur groups seen acc →
      walk m P fuel cur groups seen allP acc = some R →
      ∀ F r, Consulted P m F r → m r = true → ∃ v ∈ R, VerifierOf v r := by
  intro fuel
  induction fuel with
  | zero => intro cur groups seen allP acc R _ h; simp [walk] at h
  | succ fuel ih =>
    intro cur groups seen allP acc R inv h
    match cur, inv, h with
    | [], inv, h =>
      cases groups with
      | nil => simp only [walk, Option.some.injEq] at h; subst h; exact inv.final (Or.inl rfl)
      | cons g gs => simp only [walk] at h; exact ih _ _ _ _ _ _ (inv.pop (Or.inl rfl)) h
    | [a], inv, h =>
      cases groups with
      | nil => simp only [walk, Option.some.injEq] at h; subst h; exact inv.final (Or.inr ⟨a, rfl⟩)
      | cons g gs => simp only [walk] at h; exact ih _ _ _ _ _ _ (inv.pop (Or.inr ⟨a, rfl⟩)) h
    | d :: x :: xs, inv, h =>
      simp only [walk] at h
      have hsame : ∀ F, EnteredSoFar P seen F → EnteredSoFar P seen F ∨ F.rules ∈ groups := fun F hF => Or.inl hF
      by_cases hm : m d = true
      · simp only [hm, if_true] at h
        have ha : ∀ v ∈ acc, v ∈ acc ++ [mkVerifier d allP] := fun v hv => List.mem_append_left _ hv
        have hv : ∃ v ∈ acc ++ [mkVerifier d allP], VerifierOf v d :=
          ⟨mkVerifier d allP, by simp, verifierOf_mk d allP⟩
        by_cases hs : seen.contains d.name = true
        · simp only [hs, if_true] at h
          refine ih _ _ _ _ _ _ (inv.consult (fun n hn => hn) ha (fun g hg => hg) ?_ (Or.inl rfl) hsame) h
          exact fun _ => ⟨hv, fun _ => by simpa using hs⟩
        · simp only [hs] at h
          have hs' : seen.contains d.name = false := by simpa using hs
          have hne := ne_targets_of_not_seen inv.tgt hs'
          cases hf : P.file? d.name with
          | none =>
            simp only [hf] at h
            refine ih _ _ _ _ _ _ (inv.consult (fun n hn => hn) ha (fun g hg => hg) ?_ (Or.inl rfl) hsame) h
            refine fun _ => ⟨hv, fun hsome => ?_⟩
            rw [← file?_eq_delegated? P _ hne, hf] at hsome
            cases hsome
          | some f =>
            simp only [hf] at h
            have hdel : P.delegated? d.name = some f := by rw [← file?_eq_delegated? P _ hne]; exact hf
            have hs2 : ∀ n ∈ seen, n ∈ d.name :: seen := fun n hn => List.mem_cons_of_mem _ hn
            have hg2 : ∀ g ∈ groups, g ∈ f.rules :: groups := fun g hg => List.mem_cons_of_mem _ hg
            have hd : Processed P m (d.name :: seen) (acc ++ [mkVerifier d allP]) d :=
              fun _ => ⟨hv, fun _ => by simp⟩
            have hnew : ∀ F, EnteredSoFar P (d.name :: seen) F →
                EnteredSoFar P seen F ∨ F.rules ∈ f.rules :: groups := by
              intro F hF
              rcases hF with hp | ⟨n, hn, hdn⟩
              · exact Or.inl (Or.inl hp)
              · rcases List.mem_cons.mp hn with hn | hn
                · subst hn
                  rw [hdel] at hdn
                  cases hdn
                  exact Or.inr (by simp)
                · exact Or.inl (Or.inr ⟨n, hn, hdn⟩)
            by_cases ht : d.terminating = true
            · simp only [ht, if_true] at h
              exact ih _ _ _ _ _ _ (inv.consult hs2 ha hg2 hd (Or.inr ⟨rfl, hm, ht, by rw [hdel]; rfl⟩) hnew) h
            · simp only [ht] at h
              exact ih _ _ _ _ _ _ (inv.consult hs2 ha hg2 hd (Or.inl rfl) hnew) h
      · simp only [hm] at h
        exact ih _ _ _ _ _ _ (inv.consult (fun n hn => hn) (fun v hv => hv) (fun g hg => hg)
          (fun hm' => absurd hm' hm) (Or.inl rfl) hsame) h

end Gittuf.Walk
