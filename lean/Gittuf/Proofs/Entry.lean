import Gittuf.Props.C05
import Gittuf.Props.C09
namespace Gittuf
namespace World

/-- principal `p` was matched to a code-review approver: it is a Person of the policy that
registered one of the approver identities for a trusted app -/
def ApproverMatched (defs : List PrincipalSpec) (apps : List String) (approvers : Option (List String))
    (p : PId) : Prop :=
  ∃ as, approvers = some as ∧ ∃ d ∈ defs, d.id = p ∧ d.person = true ∧
    ∃ a ∈ as, ∃ app ∈ apps, (app, a) ∈ d.identities

theorem withApprovers_nodup (defs : List PrincipalSpec) (apps : List String) (vp : List Principal)
    (ap : Option (List String)) (used : List PId) (h : used.Nodup) :
    (withApprovers defs apps vp ap used).Nodup := by
  unfold withApprovers
  split
  · exact h
  · exact C09_approvers_nodup _ _ _ _ _ h

theorem withApprovers_sound (defs : List PrincipalSpec) (apps : List String) (vp : List Principal)
    (ap : Option (List String)) (used : List PId) :
    ∀ p ∈ withApprovers defs apps vp ap used, p ∈ used ∨ ApproverMatched defs apps ap p := by
  unfold withApprovers
  split
  · intro p hp; exact Or.inl hp
  · rename_i as
    intro p hp
    rcases C09_approvers_sound defs apps vp as used p hp with h | ⟨_, _, _, d, hd, hdid, hper, a, ha, app, happ, hmem⟩
    · exact Or.inl h
    · exact Or.inr ⟨as, rfl, d, hd, hdid, hper, a, ha, app, happ, hmem⟩

/-- what it means for rule `vn` to be satisfied by `accepted` for object signature `g` and
authorization envelope `auth` -/
def RuleMet (defs : List PrincipalSpec) (apps : List String) (ap : Option (List String))
    (vn : VerifierN) (g : Option Sig) (auth : Option Envelope) (accepted : List PId) : Prop :=
  1 ≤ vn.v.threshold ∧ vn.v.threshold ≤ (accepted.length : Int) ∧ accepted.Nodup ∧
  (∀ p ∈ accepted, ∃ P ∈ vn.v.principals, P.id = p) ∧
  ∃ used, CreditedInjectively vn.v g 1 auth used ∧
    ∀ p ∈ accepted, p ∈ used ∨ ApproverMatched defs apps ap p

/-- **Per-object decision, non-mergeable mode**: if the verifier loop accepts, the verifier it names
is one of the consulted ones and — unless it is the exhaustive verifier — that rule is met: at least
`threshold ≥ 1` distinct principals of the rule, each credited injectively through a valid signature
of one of its own keys over exactly this object / this authorization, or matched to a code-review
approver identity it registered.  For every verifier list, signature, envelope, approver set. -/
theorem go_accept_rule_met (v : Variant) (g : Option Sig) (auth : Option Envelope)
    (ap : Option (List String)) (apps : List String) (defs : List PrincipalSpec)
    (vs : List VerifierN) (r : UVResult)
    (h : usingVerifiers.go v g auth ap false apps defs vs = .ok r) :
    r.rslNeeded = false ∧ ∃ vn ∈ vs, vn.name = r.usedName ∧
      (vn.v.exhaustive = true ∨ RuleMet defs apps ap vn g auth r.accepted) := by
  induction vs with
  | nil => simp [usingVerifiers.go] at h
  | cons vn rest ih =>
    unfold usingVerifiers.go at h
    split at h
    · -- accepted outright by SignatureVerifier.Verify
      rename_i used hused
      cases h
      refine ⟨rfl, vn, List.mem_cons_self, rfl, ?_⟩
      cases hex : vn.v.exhaustive with
      | true => exact Or.inl rfl
      | false =>
        obtain ⟨h1, _, h3, hcred⟩ := C05_sound vn.v g 1 auth used hex hused
        refine Or.inr ⟨h1, h3, hcred.1, ?_, used, hcred, fun p hp => Or.inl hp⟩
        intro p hp
        obtain ⟨_, f, pg, hc, _⟩ := hcred
        obtain ⟨P, hP, hid, _⟩ := hc p hp
        exact ⟨P, hP, hid⟩
    · rename_i used hused
      have hcred := C05_unmet_credited vn.v g 1 auth used hused
      simp only at h
      split at h
      · rename_i hmet
        cases h
        refine ⟨rfl, vn, List.mem_cons_self, rfl, Or.inr ⟨?_, hmet, ?_, ?_, used, hcred, ?_⟩⟩
        · -- threshold ≥ 1: `verify` returned `unmet`, not `invalidVerifier`
          unfold Verifier.verify at hused
          split at hused
          · cases hused
          · rename_i hguard
            simp only [Bool.or_eq_true, decide_eq_true_eq, not_or, Int.not_lt] at hguard
            exact hguard.1
        · exact (withApprovers_nodup defs apps vn.v.principals ap used hcred.1).filter _
        · intro p hp
          simp only [List.mem_filter, List.any_eq_true, beq_iff_eq] at hp
          obtain ⟨_, P, hP, hid⟩ := hp
          exact ⟨P, hP, hid⟩
        · intro p hp
          exact withApprovers_sound defs apps vn.v.principals ap used p (List.mem_filter.mp hp).1
      · split at h
        · rename_i hrel
          simp at hrel
        · obtain ⟨h1, vn', hvn', h2, h3⟩ := ih h
          exact ⟨h1, vn', List.mem_cons_of_mem _ hvn', h2, h3⟩
    · cases h

end World
end Gittuf

namespace Gittuf
namespace World

/-- **Per-object decision of `verifyGitObjectAndAttestations`** (non-mergeable, no trusted-verifier
shortcut), for every policy, path, signature, approvals and variant: acceptance means the path is
unprotected, or a consulted verifier is satisfied — the exhaustive verifier (only possible while F1
is open, or when no delegation rule matches) or a delegation rule met in the sense of `RuleMet`. -/
theorem verifyObject_accept (W : World) (v : Variant) (P : Policy) (path : String) (g : Option Sig)
    (ei : Option Nat) (ap : Approvals) (res : String × Bool)
    (h : W.verifyObject v P path g ei ap { mergeable := false, trusted := "" } = .ok res) :
    ∃ vs, P.findVerifiers path = some vs ∧
      (vs = [] ∨ ∃ vn ∈ vs, vn.v.exhaustive = true ∨
        ∃ acc, RuleMet P.allPrincipals ((P.root.apps.filter (·.trusted)).map (·.name)) ap.approvers vn g ap.auth acc) := by
  unfold verifyObject at h
  split at h
  · cases h
  · rename_i vs hvs
    refine ⟨vs, hvs, ?_⟩
    split at h
    · rename_i hemp
      left
      cases vs with
      | nil => rfl
      | cons _ _ => simp at hemp
    · simp only [bne_self_eq_false, Bool.false_and, Bool.false_eq_true, if_false] at h
      split at h
      · cases h
      · rename_i r hr
        right
        unfold usingVerifiers at hr
        simp only at hr
        split at hr
        · cases hr
        · split at hr
          · rename_i ex rest _ _
            split at hr
            · -- repaired F1 path: exhaustive verifier first, delegation verifiers behind it
              rename_i hexh
              split at hr
              · cases hr
              · rename_i exUsed hexUsed
                split at hr
                · cases hr
                  simp only [Bool.and_eq_true] at hexh
                  exact ⟨ex, List.mem_cons_self, Or.inl hexh.1⟩
                · split at hr
                  · cases hr
                  · rename_i r' hr'
                    obtain ⟨_, vn, hvn, _, hmet⟩ := go_accept_rule_met v g ap.auth ap.approvers _ _ rest r' hr'
                    refine ⟨vn, List.mem_cons_of_mem _ hvn, ?_⟩
                    rcases hmet with hmet | hmet
                    · exact Or.inl hmet
                    · exact Or.inr ⟨r'.accepted, hmet⟩
            · obtain ⟨_, vn, hvn, _, hmet⟩ := go_accept_rule_met v g ap.auth ap.approvers _ _ (ex :: rest) r hr
              refine ⟨vn, hvn, ?_⟩
              rcases hmet with hmet | hmet
              · exact Or.inl hmet
              · exact Or.inr ⟨r.accepted, hmet⟩
          · cases hr

end World
end Gittuf
