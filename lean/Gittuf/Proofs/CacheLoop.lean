import Gittuf.Proofs.CacheRefine
/-!
C08: the verdict of the verification loop does not depend on the cache that is threaded through it.
-/
namespace Gittuf
namespace World

theorem goodTree_eq (W : World) (lg : Nat) :
    (match W.log[lg]? with | some le => W.treeOfEntry le | none => 0) =
    (match (W.log[lg]?).bind targetCommit with | some c => W.treeOf c | none => 0) := by
  cases h : W.log[lg]? with
  | none => rfl
  | some le =>
    simp only [Option.bind_some, treeOfEntry]
    cases targetCommit le <;> rfl

/-- **The walk's verdict never depends on the cache**: whatever cache content the loop starts with
(absent, stale, freshly populated, populated at any earlier point of the log's growth), the verdict
of the cache-threading loop is the verdict of the plain loop — for every history, queue, state,
fuel and variant. -/
theorem relLoopC_verdict (W : World) (v : Variant) (first : Nat) :
    ∀ (fuel : Nat) (q : List Nat) (st : VState) (c : Cache),
      (W.relLoopC v first fuel q st c).1 = W.relLoop v first fuel q st := by
  intro fuel
  induction fuel with
  | zero => intro q st c; rfl
  | succ fuel ih =>
    intro q st c
    cases q with
    | nil => rfl
    | cons j rest =>
      unfold relLoopC relLoop
      cases hj : W.log[j]? with
      | none => rfl
      | some e =>
        simp only
        by_cases h1 : (e.kind == .prop && (v.f2_propagationSkipped || hasPrefix e.ref gittufPrefix)) = true
        · simp only [if_pos h1]; exact ih _ _ _
        · simp only [if_neg h1]
          by_cases h2 : (e.ref == policyStagingRef) = true
          · simp only [if_pos h2]; exact ih _ _ _
          · simp only [if_neg h2]
            by_cases h3 : (e.ref == policyRef) = true
            · simp only [if_pos h3]
              by_cases h4 : (j == first) = true
              · simp only [if_pos h4]; exact ih _ _ _
              · simp only [if_neg h4]
                cases hl : W.loadRaw j with
                | error x => rfl
                | ok newP =>
                  simp only
                  cases hp : st.policy with
                  | some cur =>
                    simp only
                    cases hv : liftP (cur.verifyNewState newP) with
                    | error x => rfl
                    | ok u =>
                      simp only
                      by_cases h5 : (!v.f4_inRangeNotSelfVerified) = true
                      · simp only [if_pos h5]
                        cases hs : liftP newP.verify with
                        | error x => rfl
                        | ok u2 => simp only; exact ih _ _ _
                      · simp only [if_neg h5]; exact ih _ _ _
                  | none =>
                    simp only
                    by_cases h5 : (!v.f4_inRangeNotSelfVerified) = true
                    · simp only [if_pos h5]
                      cases hs : liftP newP.verify with
                      | error x => rfl
                      | ok u2 => simp only; exact ih _ _ _
                    · simp only [if_neg h5]; exact ih _ _ _
            · simp only [if_neg h3]
              by_cases h6 : (e.ref == attestationsRef) = true
              · simp only [if_pos h6]
                cases ha : W.attAt j with
                | none => rfl
                | some a => simp only; exact ih _ _ _
              · simp only [if_neg h6]
                cases hp : st.policy with
                | none => rfl
                | some P =>
                  simp only
                  cases hve : W.verifyEntry v P st.att j e with
                  | ok u => simp only; exact ih _ _ _
                  | error err =>
                    simp only
                    by_cases h7 : (!W.skipped j) = true
                    · simp only [if_pos h7]
                    · simp only [if_neg h7]
                      by_cases h8 : rest.isEmpty = true
                      · simp only [if_pos h8]
                      · simp only [if_neg h8]
                        cases hlg : W.latestFor e.ref j (unskipped := true) (refOnly := true) with
                        | none => rfl
                        | some lg =>
                          simp only
                          have key : ∀ (res res' : Option Nat × Bool × List Nat), res = res' →
                              (match res with
                               | (none, _, _) => ((.error err : Except VE Unit), c)
                               | (some fix, bad, newQ) =>
                                 if bad then (.error .notSkipped, c) else
                                 if v.f3_fixNotVerified then W.relLoopC v first fuel newQ st (c.setLastVerified e.ref fix)
                                 else
                                   match W.log[fix]? with
                                   | none => (.error .other, c)
                                   | some fe =>
                                     match W.verifyEntry v P st.att fix fe with
                                     | .ok () => W.relLoopC v first fuel newQ st (c.setLastVerified e.ref fix)
                                     | .error err2 => (.error err2, c)).1 =
                              (match res' with
                               | (none, _, _) => (.error err : Except VE Unit)
                               | (some fix, bad, newQ) =>
                                 if bad then .error .notSkipped else
                                 if v.f3_fixNotVerified then W.relLoop v first fuel newQ st
                                 else
                                   match W.log[fix]? with
                                   | none => .error .other
                                   | some fe =>
                                     match W.verifyEntry v P st.att fix fe with
                                     | .ok () => W.relLoop v first fuel newQ st
                                     | .error err2 => .error err2) := by
                            intro res res' hrr
                            subst hrr
                            obtain ⟨fx, bad, newQ⟩ := res
                            cases fx with
                            | none => rfl
                            | some fix =>
                              simp only
                              by_cases h9 : bad = true
                              · simp only [if_pos h9]
                              · simp only [if_neg h9]
                                by_cases h10 : v.f3_fixNotVerified = true
                                · simp only [if_pos h10]; exact ih _ _ _
                                · simp only [if_neg h10]
                                  cases hfe : W.log[fix]? with
                                  | none => rfl
                                  | some fe =>
                                    simp only
                                    cases hvf : W.verifyEntry v P st.att fix fe with
                                    | ok u => simp only; exact ih _ _ _
                                    | error e2 => rfl
                          exact key _ _ (congrArg (fun g => W.lookForFix e.ref g rest [] false) (goodTree_eq W lg))

end World
end Gittuf
