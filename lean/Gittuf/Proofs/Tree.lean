/-
Lemmas about the path codec and the tree operations (Model/Tree.lean, Spec/C10.lean, Spec/C18.lean).
-/
import Gittuf.Spec.C10
import Gittuf.Spec.C18
import Gittuf.Proofs.Codec
namespace Gittuf.Tree
open Gittuf.Codec (Bytes Hash hasPrefix hasSuffix splitNL joinNL trimSpace trimLeft trimRight wsLen wsRevLen stripN)

/-! ## splitting at a separator byte -/

theorem splitOn_ne_nil (sep : UInt8) (l : Bytes) : splitOn sep l ≠ [] := by
  induction l with
  | nil => simp [splitOn]
  | cons c rest ih =>
    unfold splitOn
    split
    · simp
    · split <;> simp

theorem splitOn_append (sep : UInt8) (n rest : Bytes) (h : sep ∉ n) :
    splitOn sep (n ++ sep :: rest) = n :: splitOn sep rest := by
  induction n with
  | nil => simp [splitOn]
  | cons c n ih =>
    have hc : c ≠ sep := by intro e; apply h; simp [e]
    have hn : sep ∉ n := by intro e; apply h; simp [e]
    show splitOn sep (c :: (n ++ sep :: rest)) = _
    rw [splitOn]
    simp [hc, ih hn]

theorem parseNamesZ_render (names : List Path) (h : ∀ n ∈ names, (0 : UInt8) ∉ n) :
    splitOn 0 (renderNameOnlyZ names) = names ++ [[]] := by
  induction names with
  | nil => simp [renderNameOnlyZ, splitOn]
  | cons n rest ih =>
    have h0 : (0 : UInt8) ∉ n := h n (by simp)
    have hr : ∀ m ∈ rest, (0 : UInt8) ∉ m := fun m hm => h m (by simp [hm])
    have : renderNameOnlyZ (n :: rest) = n ++ 0 :: renderNameOnlyZ rest := by
      simp [renderNameOnlyZ]
    rw [this, splitOn_append 0 n _ h0, ih hr]
    simp

/-! ## names made of safe bytes -/

set_option maxRecDepth 100000 in
theorem safe_not_special : ∀ c : UInt8, safeByte c = true → c ∉ Codec.specialB := by
  apply Codec.forall_uint8
  decide

set_option maxRecDepth 100000 in
theorem safe_ne_nl : ∀ c : UInt8, safeByte c = true → c ≠ 10 := by
  apply Codec.forall_uint8
  decide

set_option maxRecDepth 100000 in
theorem safe_not_quoted : ∀ c : UInt8, safeByte c = true → mustQuote c = false := by
  apply Codec.forall_uint8
  decide

theorem cquote_safe (p : Path) (h : safeName p = true) : cquote p = p := by
  simp only [safeName, Bool.and_eq_true, List.all_eq_true] at h
  have : p.any mustQuote = false := by
    rw [List.any_eq_false]
    intro c hc
    simp [safe_not_quoted c (h.2 c hc)]
  simp [cquote, this]

theorem safe_noNL (p : Path) (h : safeName p = true) : (10 : UInt8) ∉ p := by
  simp only [safeName, Bool.and_eq_true, List.all_eq_true] at h
  intro h10
  exact safe_ne_nl 10 (h.2 10 h10) rfl

theorem renderNameOnly_safe (names : List Path) (h : ∀ n ∈ names, safeName n = true) (hne : names ≠ []) :
    renderNameOnly names = joinNL names ++ [10] := by
  induction names with
  | nil => exact absurd rfl hne
  | cons n rest ih =>
    have hn := h n (by simp)
    have hr : ∀ m ∈ rest, safeName m = true := fun m hm => h m (by simp [hm])
    cases rest with
    | nil => simp [renderNameOnly, joinNL, cquote_safe n hn]
    | cons m rest' =>
      have := ih hr (by simp)
      simp only [renderNameOnly, List.flatMap_cons] at this ⊢
      rw [this]
      simp [joinNL, cquote_safe n hn]

/-- a text that starts and ends with a safe byte, followed by the final newline git prints -/
theorem trimSpace_text_nl (x : Bytes) (a : UInt8) (x' : Bytes) (hx : x = a :: x') (ha : safeByte a = true)
    (b : UInt8) (y : Bytes) (hy : x.reverse = b :: y) (hb : safeByte b = true) :
    trimSpace (x ++ [10]) = x := by
  subst hx
  have hl : trimLeft ((a :: x') ++ [10]) = (a :: x') ++ [10] := by
    apply Codec.trimLeft_id
    exact Codec.wsLen_plain_head a _ (safe_not_special a ha)
  unfold trimSpace
  rw [hl]
  unfold trimRight
  have hrev : ((a :: x') ++ [10]).reverse = 10 :: b :: y := by
    rw [List.reverse_append, hy]; rfl
  rw [hrev]
  have h1 : wsRevLen (10 :: b :: y) = 1 := by
    simp [wsRevLen, Codec.ws1]
  have h0 : wsRevLen (b :: y) = 0 := Codec.wsRevLen_plain_head b y (safe_not_special b hb)
  have hlen : ((a :: x') ++ [10]).length = (x'.length + 1) + 1 := by simp
  rw [hlen]
  simp only [stripN, h1]
  simp only [Nat.succ_ne_zero, ↓reduceIte, List.drop_succ_cons, List.drop_zero]
  rw [if_pos h0, ← hy]
  simp

/-! ## directory prefixes -/

theorem hasPrefix_iff (p t : Bytes) : hasPrefix p t = true ↔ ∃ r, t = p ++ r := by
  induction p generalizing t with
  | nil => simp [hasPrefix]
  | cons a p ih =>
    cases t with
    | nil => simp [hasPrefix]
    | cons b t =>
      simp only [hasPrefix, Bool.and_eq_true, beq_iff_eq, ih, List.cons_append, List.cons.injEq]
      constructor
      · rintro ⟨rfl, r, rfl⟩; exact ⟨r, rfl, rfl⟩
      · rintro ⟨r, rfl, rfl⟩; exact ⟨rfl, r, rfl⟩

theorem under_iff (dir : Bytes) (p : Path) : under dir p = true ↔ ∃ r, p = dir ++ 47 :: r := by
  unfold under
  rw [hasPrefix_iff]
  simp

theorem under_reroot (dir : Bytes) (e : Entry) : under dir (reroot dir e).path = true := by
  rw [under_iff]; exact ⟨e.path, rfl⟩

theorem drop_reroot (dir : Bytes) (e : Entry) : (reroot dir e).path.drop (dir.length + 1) = e.path := by
  simp [reroot]

theorem subtreeAt_nil_of_not_under (t : Tree) (dir : Bytes) (h : ∀ e ∈ t, under dir e.path = false) :
    subtreeAt t dir = [] := by
  induction t with
  | nil => rfl
  | cons e t ih =>
    have he := h e (by simp)
    have ht : ∀ x ∈ t, under dir x.path = false := fun x hx => h x (by simp [hx])
    unfold under at he
    simp only [subtreeAt, List.filterMap_cons, he] at ih ⊢
    exact ih ht

theorem subtreeAt_append (a b : Tree) (dir : Bytes) : subtreeAt (a ++ b) dir = subtreeAt a dir ++ subtreeAt b dir := by
  simp [subtreeAt, List.filterMap_append]

theorem subtreeAt_reroot (sub : Tree) (dir : Bytes) : subtreeAt (sub.map (reroot dir)) dir = sub := by
  induction sub with
  | nil => rfl
  | cons e t ih =>
    have hu := under_reroot dir e
    unfold under at hu
    have hd := drop_reroot dir e
    simp only [subtreeAt, List.map_cons, List.filterMap_cons, hu, ↓reduceIte] at ih ⊢
    rw [ih, hd]
    cases e
    simp [reroot]

end Gittuf.Tree
