/-
Helper lemmas for C20 (Props/C20.lean).
-/
import Gittuf.Spec.C20
import Gittuf.Model.SandboxSnapshot
namespace Gittuf
open Sandbox

theorem closedB_parts (g : Graph) (S : List Nat) (h : closedB g S = true) :
    0 ∈ S ∧ (∀ r ∈ g.roots, r ∈ S) ∧ (∀ e ∈ g.edges, e.src ∈ S → e.dst ∈ S) := by
  unfold closedB at h
  simp only [Bool.and_eq_true, List.all_eq_true, List.contains_iff_mem] at h
  refine ⟨h.1.1, h.1.2, ?_⟩
  intro e he hs
  have := h.2 e he
  cases hc : S.contains e.src with
  | false =>
    have : e.src ∉ S := by
      intro hm
      have : S.contains e.src = true := List.contains_iff_mem.mpr hm
      rw [hc] at this; cases this
    exact absurd hs this
  | true =>
    rw [hc] at this
    simpa using this

theorem safeB_parts (g : Graph) (h : safeB g = true) :
    closedB g (reach g) = true ∧ ∀ i ∈ reach g, nodeAllowedB g i = true := by
  unfold safeB safeOn at h
  simp only [Bool.and_eq_true, List.all_eq_true] at h
  exact h

theorem reachable_in_closed (g : Graph) (S : List Nat) (h : closedB g S = true) :
    ∀ i, Reachable g i → i ∈ S := by
  obtain ⟨_, hr, he⟩ := closedB_parts g S h
  intro i hi
  induction hi with
  | root hm => exact hr _ hm
  | step _ hm ih => exact he _ hm ih

/-- invariant of a script run w.r.t. a closed set `S` -/
def Inv (S : List Nat) (st : St) : Prop :=
  (∀ e ∈ st.edges, e.src ∈ S → e.dst ∈ S) ∧ (∀ x ∈ st.held, x ∈ S) ∧ 0 ∈ S

theorem capResult_sound (c : Cap) (g : Graph) (st : St) (f : Nat) (args : List Nat) (r : Nat)
    (h : capResult c g st f args r = true) : r = f ∨ r ∈ args ∨ r ∈ st.held ∨ r ∈ g.roots := by
  cases c <;> simp [capResult] at h
  · rcases h with h | h
    · exact Or.inl h
    · exact Or.inr (Or.inl h)
  · exact Or.inr (Or.inr (Or.inl h))
  · rcases h with h | h
    · exact Or.inr (Or.inr (Or.inr h))
    · exact Or.inr (Or.inl h)
  · exact Or.inr (Or.inl h)
  · exact Or.inr (Or.inr (Or.inl h))
  · exact Or.inr (Or.inr (Or.inl h))

theorem putEdge_closed (S : List Nat) (es : List Edge) (t : Nat) (label : String)
    (v : Option Nat) (h0 : 0 ∈ S) (hv : ∀ x, v = some x → x ∈ S)
    (hes : ∀ e ∈ es, e.src ∈ S → e.dst ∈ S) :
    ∀ e ∈ putEdge es t label v, e.src ∈ S → e.dst ∈ S := by
  intro e he hs
  unfold putEdge at he
  simp only [List.mem_append, List.mem_filter, List.mem_singleton] at he
  rcases he with ⟨he, _⟩ | rfl
  · exact hes e he hs
  · cases v with
    | none => exact h0
    | some x => exact hv x rfl

theorem writeEdges_closed (g : Graph) (S : List Nat) (es : List Edge) (t : Nat) (label : String)
    (v : Option Nat) (raw : Bool) (h0 : 0 ∈ S) (hv : ∀ x, v = some x → x ∈ S)
    (hes : ∀ e ∈ es, e.src ∈ S → e.dst ∈ S) :
    ∀ e ∈ writeEdges g es t label v raw, e.src ∈ S → e.dst ∈ S := by
  unfold writeEdges
  intro e he
  split at he
  · exact putEdge_closed S es t label v h0 hv hes e he
  · split at he
    · exact hes e he
    · exact putEdge_closed S es t label v h0 hv hes e he

theorem step_inv (g : Graph) (S : List Nat) (hr : ∀ r ∈ g.roots, r ∈ S) (st : St) (a : Action)
    (h : Inv S st) : Inv S (step g st a) := by
  obtain ⟨he, hh, h0⟩ := h
  cases a with
  | follow e =>
    simp only [step]
    split
    · rename_i hc
      refine ⟨he, ?_, h0⟩
      intro x hx
      simp only [List.mem_append, List.mem_singleton] at hx
      rcases hx with hx | rfl
      · exact hh x hx
      · exact he e hc.1 (hh _ hc.2)
    · exact ⟨he, hh, h0⟩
  | call f args r =>
    simp only [step]
    split
    · rename_i hc
      refine ⟨he, ?_, h0⟩
      intro x hx
      simp only [List.mem_append, List.mem_singleton] at hx
      rcases hx with hx | rfl
      · exact hh x hx
      · have hcm := hc.2.2
        unfold callMayReturn at hcm
        split at hcm
        · cases hcm
        · rename_i c _
          rcases capResult_sound c g st f args x hcm with h1 | h1 | h1 | h1
          · subst h1; exact hh _ hc.1
          · exact hh _ (hc.2.1 _ h1)
          · exact hh _ h1
          · exact hr _ h1
    · exact ⟨he, hh, h0⟩
  | write t label v raw =>
    simp only [step]
    split
    · rename_i hc
      refine ⟨?_, hh, h0⟩
      exact writeEdges_closed g S st.edges t label v raw h0 (fun x hx => hh x (hc.2 x hx)) he
    · exact ⟨he, hh, h0⟩
  | setenv f t =>
    simp only [step]
    split
    · rename_i hc
      refine ⟨?_, hh, h0⟩
      intro e hm hs
      simp only [List.mem_append, List.mem_filter, List.mem_singleton] at hm
      rcases hm with ⟨hm, _⟩ | rfl
      · exact he e hm hs
      · exact hh _ hc.2.1
    · exact ⟨he, hh, h0⟩

theorem foldl_inv (g : Graph) (S : List Nat) (hr : ∀ r ∈ g.roots, r ∈ S) (as : List Action) (st : St)
    (h : Inv S st) : Inv S (as.foldl (step g) st) := by
  induction as generalizing st with
  | nil => exact h
  | cons a rest ih => exact ih _ (step_inv g S hr st a h)

theorem run_inv (g : Graph) (S : List Nat) (h : closedB g S = true) (as : List Action) :
    Inv S (run g as) := by
  obtain ⟨h0, hr, he⟩ := closedB_parts g S h
  exact foldl_inv g S hr as (St.init g) ⟨he, hr, h0⟩

/-! snapshot -/

def snapChecks (g : Graph) (S : List Nat) : Bool := safeOn g S && hiddenDangerOn g S

/-- one kernel evaluation of the closure of the snapshot graph -/
theorem snapshot_checks : snapChecks snapshot (reach snapshot) = true := by decide +kernel

/-- `string.find = nil` -/
def f30Table : Nat := (resolve snapshot (globalsRoot snapshot) ["string"]).getD 0
def f30Edge : Edge := ⟨f30Table, "f:find", (resolve snapshot f30Table ["find"]).getD 0⟩
def f30Action : Action := .write f30Table "f:find" none false

/-! hook selection -/

theorem selectPrincipal_foldl (ps : List Principal) (key : Nat) (acc : Option Principal) (p : Principal)
    (h : ps.foldl (fun acc p => if p.keys.contains key then some p else acc) acc = some p) :
    (p ∈ ps ∧ key ∈ p.keys) ∨ acc = some p := by
  induction ps generalizing acc with
  | nil => exact Or.inr h
  | cons q rest ih =>
    simp only [List.foldl_cons] at h
    rcases ih _ h with ⟨hm, hk⟩ | hacc
    · exact Or.inl ⟨List.mem_cons_of_mem _ hm, hk⟩
    · split at hacc
      · rename_i hc
        injection hacc with hacc
        subst hacc
        exact Or.inl ⟨List.mem_cons_self .., by simpa using hc⟩
      · exact Or.inr hacc

theorem selectPrincipal_some (ps : List Principal) (key : Nat) (p : Principal)
    (h : selectPrincipal ps key = some p) : p ∈ ps ∧ key ∈ p.keys := by
  rcases selectPrincipal_foldl ps key none p h with h | h
  · exact h
  · cases h

end Gittuf
