import Gittuf.Proofs.Chain
namespace Gittuf

/-- principals of a rule share no keys and have distinct ids -/
def DisjointKeys (ps : List Principal) : Prop :=
  (ps.map (·.id)).Nodup ∧ ∀ P ∈ ps, ∀ Q ∈ ps, ∀ k, k ∈ P.keys → k ∈ Q.keys → P = Q

/-- principal `P` signed the envelope with one of its keys -/
def SignedEnv (e : Envelope) (P : Principal) : Prop :=
  ∃ k ∈ P.keys, ∃ s ∈ e.sigs, s.okFor k e.digest = true

theorem accepted_nonempty (d : Digest) (sigs : List Sig) (avail : List KeyId)
    (h : ∃ s ∈ sigs, ∃ k ∈ avail, s.okFor k d = true) : acceptedKeysAux d sigs avail ≠ [] := by
  induction sigs generalizing avail with
  | nil => obtain ⟨s, hs, _⟩ := h; cases hs
  | cons s0 ss ih =>
    unfold acceptedKeysAux
    split
    · simp
    · rename_i hnone
      obtain ⟨s, hs, k, hk, hok⟩ := h
      rcases List.mem_cons.mp hs with hs | hs
      · subst hs
        have := List.find?_eq_none.mp hnone k hk
        simp [hok] at this
      · exact ih avail ⟨s, hs, k, hk, hok⟩

/-- every accepted key is one of the available keys -/
theorem accepted_subset (d : Digest) (sigs : List Sig) (avail : List KeyId) :
    ∀ k ∈ acceptedKeysAux d sigs avail, k ∈ avail := fun k hk => (accepted_mem d sigs avail k hk).1

/-- invariant of the envelope phase used for completeness: every used key belongs to a principal
already processed (or to the initial state), every processed principal that signed is credited -/
structure CompInv (e : Envelope) (done : List Principal) (st : VState) : Prop where
  keys : ∀ k ∈ st.2, ∃ P ∈ done, k ∈ P.keys
  cred : ∀ P ∈ done, SignedEnv e P → P.id ∈ st.1

theorem envStep_comp (e : Envelope) (hne : e.sigs ≠ []) (all : List Principal) (hd : DisjointKeys all)
    (done : List Principal) (P : Principal) (hdone : ∀ Q ∈ done, Q ∈ all) (hP : P ∈ all)
    (hnot : P ∉ done) (st : VState) (hinv : CompInv e done st) :
    ∃ st', envStep e st P = .ok st' ∧ CompInv e (done ++ [P]) st' ∧ (∀ p ∈ st.1, p ∈ st'.1) := by
  -- keys of P are all unused: used keys belong to processed principals, which are different from P
  have hfree : ∀ k ∈ P.keys, k ∉ st.2 := by
    intro k hk hused
    obtain ⟨Q, hQ, hkQ⟩ := hinv.keys k hused
    have := hd.2 P hP Q (hdone Q hQ) k hk hkQ
    subst this
    exact hnot hQ
  have hfilter : P.keys.filter (fun k => !st.2.contains k) = P.keys := by
    rw [List.filter_eq_self]
    intro k hk
    simpa using hfree k hk
  unfold envStep
  split
  · -- already credited (through the Git signature)
    rename_i hin
    refine ⟨st, rfl, ⟨?_, ?_⟩, fun p hp => hp⟩
    · intro k hk
      obtain ⟨Q, hQ, hkQ⟩ := hinv.keys k hk
      exact ⟨Q, List.mem_append_left _ hQ, hkQ⟩
    · intro Q hQ hs
      rcases List.mem_append.mp hQ with hQ | hQ
      · exact hinv.cred Q hQ hs
      · simp only [List.mem_singleton] at hQ; subst hQ; simpa using hin
  · simp only [hfilter]
    split
    · -- no keys at all: cannot have signed
      rename_i hemp
      refine ⟨st, rfl, ⟨?_, ?_⟩, fun p hp => hp⟩
      · intro k hk
        obtain ⟨Q, hQ, hkQ⟩ := hinv.keys k hk
        exact ⟨Q, List.mem_append_left _ hQ, hkQ⟩
      · intro Q hQ hs
        rcases List.mem_append.mp hQ with hQ | hQ
        · exact hinv.cred Q hQ hs
        · simp only [List.mem_singleton] at hQ; subst hQ
          obtain ⟨k, hk, _⟩ := hs
          have : Q.keys = [] := by simpa using hemp
          rw [this] at hk; cases hk
    · split
      · rename_i hs; exact absurd (by simpa using hs) hne
      · split
        · -- nothing accepted: P did not sign
          rename_i hacc
          refine ⟨st, rfl, ⟨?_, ?_⟩, fun p hp => hp⟩
          · intro k hk
            obtain ⟨Q, hQ, hkQ⟩ := hinv.keys k hk
            exact ⟨Q, List.mem_append_left _ hQ, hkQ⟩
          · intro Q hQ hs
            rcases List.mem_append.mp hQ with hQ | hQ
            · exact hinv.cred Q hQ hs
            · simp only [List.mem_singleton] at hQ; subst hQ
              exfalso
              obtain ⟨k, hk, s, hs', hok⟩ := hs
              have := accepted_nonempty e.digest e.sigs Q.keys ⟨s, hs', k, hk, hok⟩
              exact this (by simpa [acceptedKeys] using hacc)
        · refine ⟨_, rfl, ⟨?_, ?_⟩, fun p hp => List.mem_append_left _ hp⟩
          · intro k hk
            rcases List.mem_append.mp hk with hk | hk
            · obtain ⟨Q, hQ, hkQ⟩ := hinv.keys k hk
              exact ⟨Q, List.mem_append_left _ hQ, hkQ⟩
            · exact ⟨P, List.mem_append_right _ (by simp), accepted_subset _ _ _ k hk⟩
          · intro Q hQ hs
            rcases List.mem_append.mp hQ with hQ | hQ
            · exact List.mem_append_left _ (hinv.cred Q hQ hs)
            · simp only [List.mem_singleton] at hQ; subst hQ
              exact List.mem_append_right _ (by simp)

theorem envPhase_comp (e : Envelope) (hne : e.sigs ≠ []) (all : List Principal) (hd : DisjointKeys all)
    (todo : List Principal) (done : List Principal) (hdone : ∀ Q ∈ done, Q ∈ all)
    (htodo : ∀ Q ∈ todo, Q ∈ all) (hsplit : (done ++ todo).Nodup) (st : VState) (hinv : CompInv e done st) :
    ∃ st', envPhase e todo st = .ok st' ∧ CompInv e (done ++ todo) st' ∧ (∀ p ∈ st.1, p ∈ st'.1) := by
  induction todo generalizing done st with
  | nil => exact ⟨st, rfl, by simpa using hinv, fun p hp => hp⟩
  | cons P ps ih =>
    have hPnot : P ∉ done := by
      intro h
      have := (List.nodup_append.mp hsplit).2.2 P h P List.mem_cons_self
      exact this rfl
    obtain ⟨st1, hst1, hinv1, hmono1⟩ := envStep_comp e hne all hd done P hdone (htodo P List.mem_cons_self) hPnot st hinv
    have hdone' : ∀ Q ∈ done ++ [P], Q ∈ all := by
      intro Q hQ
      rcases List.mem_append.mp hQ with hQ | hQ
      · exact hdone Q hQ
      · simp only [List.mem_singleton] at hQ; subst hQ; exact htodo Q List.mem_cons_self
    have hsplit' : ((done ++ [P]) ++ ps).Nodup := by simpa [List.append_assoc] using hsplit
    obtain ⟨st2, hst2, hinv2, hmono2⟩ := ih (done ++ [P]) hdone' (fun Q hQ => htodo Q (List.mem_cons_of_mem _ hQ)) hsplit' st1 hinv1
    refine ⟨st2, ?_, by simpa [List.append_assoc] using hinv2, fun p hp => hmono2 p (hmono1 p hp)⟩
    unfold envPhase
    rw [hst1]
    exact hst2

end Gittuf

namespace Gittuf

theorem nodup_of_map_nodup {α β} (f : α → β) (l : List α) (h : (l.map f).Nodup) : l.Nodup := by
  induction l with
  | nil => simp
  | cons a l ih =>
    simp only [List.map_cons, List.nodup_cons] at h ⊢
    refine ⟨fun hm => h.1 (List.mem_map_of_mem hm), ih h.2⟩

def signedB (e : Envelope) (P : Principal) : Bool :=
  P.keys.any (fun k => e.sigs.any (fun s => s.okFor k e.digest))

theorem signedB_iff (e : Envelope) (P : Principal) : signedB e P = true ↔ SignedEnv e P := by
  simp [signedB, SignedEnv, List.any_eq_true]

/-- **Completeness for key-disjoint principals** (second half of C05): when the principals of a rule
share no keys, the rule is satisfied whenever at least `threshold` of them signed the envelope with
one of their keys — for every rule, every order of principals and keys, every envelope carrying at
least one signature. -/
theorem C05_complete_env (v : Verifier) (e : Envelope) (gd : Digest) (hx : v.exhaustive = false)
    (hd : DisjointKeys v.principals) (hne : e.sigs ≠ []) (hth : 1 ≤ v.threshold)
    (hcount : v.threshold ≤ ((v.principals.filter (signedB e)).length : Int)) :
    ∃ S, v.verify none gd (some e) = .ok S := by
  have hnonempty : v.principals ≠ [] := by
    intro h0
    rw [h0] at hcount
    simp at hcount
    omega
  have hnodup : v.principals.Nodup := nodup_of_map_nodup _ _ hd.1
  obtain ⟨st, hst, hinv, _⟩ := envPhase_comp e hne v.principals hd v.principals [] (by simp)
    (fun Q hQ => hQ) (by simpa using hnodup) ([], []) ⟨by simp, by simp⟩
  simp only [List.nil_append] at hinv
  -- every signer's id is in the credited list, ids are distinct: enough principals are credited
  have hlen : ((v.principals.filter (signedB e)).length : Int) ≤ (st.1.length : Int) := by
    have hsub : ∀ x ∈ (v.principals.filter (signedB e)).map (·.id), x ∈ st.1 := by
      intro x hx'
      simp only [List.mem_map, List.mem_filter] at hx'
      obtain ⟨P, ⟨hP, hs⟩, rfl⟩ := hx'
      exact hinv.cred P hP ((signedB_iff e P).mp hs)
    have hnd : ((v.principals.filter (signedB e)).map (·.id)).Nodup := by
      have : ((v.principals.filter (signedB e)).map (·.id)).Sublist (v.principals.map (·.id)) :=
        (List.filter_sublist).map _
      exact this.nodup hd.1
    have := nodup_subset_length _ _ hnd hsub
    simp only [List.length_map] at this
    exact_mod_cast this
  unfold Verifier.verify
  have hguard : (decide (v.threshold < 1) || v.principals.isEmpty) = false := by
    have h1 : ¬ v.threshold < 1 := by omega
    have h2 : v.principals.isEmpty = false := by
      cases hp : v.principals with
      | nil => exact absurd hp hnonempty
      | cons _ _ => rfl
    simp [h1, h2]
  simp only [hguard, Bool.false_eq_true, if_false, gitPhase, Option.isSome_none, Bool.and_false, hst]
  unfold Verifier.finish
  have hfin : (v.exhaustive || decide ((st.1.length : Int) ≥ v.threshold)) = true := by
    have : (st.1.length : Int) ≥ v.threshold := by omega
    simp [this]
  simp only [hfin, if_true]
  exact ⟨st.1, rfl⟩

end Gittuf
