import Gittuf.Proofs.InForce
/-!
C02 at the level of the whole verification loop: every policy entry met inside an accepted range
was checked against exactly the policy state in force before it (`VerifyNewState`) and, in the
repaired variant, verified on its own (`State.Verify`).  Core Lean only.
-/
namespace Gittuf
namespace World

theorem liftP_ok {α} (r : Except PErr α) (a : α) (h : liftP r = .ok a) : r = .ok a := by
  cases r with
  | ok x => simpa [liftP] using h
  | error e => simp [liftP] at h

/-- what an accepted walk guarantees for a policy entry inside the range -/
def PolOK (W : World) (v : Variant) (first : Nat) (p0 : Option Policy) (j : Nat) : Prop :=
  ∃ newP, W.loadRaw j = .ok newP ∧
    (∀ cur, W.polInForce first p0 j = some cur → cur.verifyNewState newP = .ok ()) ∧
    (v.f4_inRangeNotSelfVerified = false → newP.verify = .ok ())

/-- **Every policy entry inside an accepted range extends the chain of trust from exactly the state
in force before it** — for every history, queue, starting state, fuel and variant, including the
entries the recovery branch defers and re-queues. -/
theorem relLoop_chain_gen (W : World) (v : Variant) (first hi : Nat) (p0 : Option Policy)
    (a0 : Option AttState) :
    ∀ (fuel : Nat) (q : List Nat) (st : VState) (m : Nat),
      SInv W first hi p0 a0 m q st →
      W.relLoop v first fuel q st = .ok () →
      ∀ j ∈ q, W.isPolK first j = true → PolOK W v first p0 j := by
  intro fuel
  induction fuel with
  | zero => intro q st m _ h; simp [relLoop] at h
  | succ fuel ih =>
    intro q st m hinv h j hj hjp
    cases q with
    | nil => cases hj
    | cons a rest =>
      unfold relLoop at h
      split at h
      · cases h
      · rename_i ea hea
        have hann : ea.kind ≠ .ann := hinv.upd a List.mem_cons_self ea hea
        -- `a` is not an applied policy entry: the claim concerns the rest of the queue
        have notHead : W.isPolK first a = false → j ∈ rest := by
          intro hpa
          rcases List.mem_cons.mp hj with hja | hjr
          · subst hja; rw [hpa] at hjp; cases hjp
          · exact hjr
        split at h
        · rename_i hprop
          simp only [Bool.and_eq_true, Bool.or_eq_true, beq_iff_eq] at hprop
          have hk : ea.kind ≠ .ref := by rw [hprop.1]; decide
          have hpa := isPolK_false_of_kind (first := first) hea hk
          exact ih rest st _ (hinv.tailSame hpa (isAttK_false_of_kind hea hk)) h j (notHead hpa) hjp
        · rename_i hnprop
          split at h
          · rename_i hstag
            have hsr : ea.ref = policyStagingRef := by simpa using hstag
            have hpa := isPolK_false_of_ref (first := first) hea (hsr ▸ staging_ne_policy)
            exact ih rest st _ (hinv.tailSame hpa (isAttK_false_of_ref hea (hsr ▸ staging_ne_att))) h j (notHead hpa) hjp
          · split at h
            · rename_i hpol
              have hpr : ea.ref = policyRef := by simpa using hpol
              have hkref : ea.kind = .ref := by
                refine kind_ref_of hann ?_
                intro hk
                apply hnprop
                simp [hk, hpr, gittuf_prefix_policy]
              split at h
              · rename_i hfirst
                have haf : a = first := by simpa using hfirst
                have hpa : W.isPolK first a = false := by
                  subst haf
                  simp [isPolK, hea]
                exact ih rest st _ (hinv.tailSame hpa (isAttK_false_of_ref hea (hpr ▸ policyRef_ne_att))) h j (notHead hpa) hjp
              · rename_i hnfirst
                have haf : a ≠ first := by simpa using hnfirst
                obtain ⟨hstP, _⟩ := hinv.atHead
                split at h
                · cases h
                · rename_i newP hnewP
                  have hnext := hinv.tailPol hea hkref hpr haf hnewP
                  -- the facts established for `a` itself, given what the walk checked
                  have headCase : (∀ cur, st.policy = some cur → cur.verifyNewState newP = .ok ()) →
                      (v.f4_inRangeNotSelfVerified = false → newP.verify = .ok ()) →
                      W.relLoop v first fuel rest { st with policy := some newP } = .ok () →
                      PolOK W v first p0 j := by
                    intro hchain hself hloop
                    rcases List.mem_cons.mp hj with hja | hjr
                    · subst hja
                      exact ⟨newP, hnewP, fun cur hc => hchain cur (hstP ▸ hc), hself⟩
                    · exact ih rest _ _ hnext hloop j hjr hjp
                  split at h
                  · rename_i cur hcur
                    split at h
                    · cases h
                    · rename_i hvn
                      have hchain : ∀ c, st.policy = some c → c.verifyNewState newP = .ok () := by
                        intro c hc
                        rw [hcur] at hc; cases hc
                        exact liftP_ok _ _ hvn
                      split at h
                      · rename_i hf4
                        split at h
                        · cases h
                        · rename_i hself
                          exact headCase hchain (fun _ => liftP_ok _ _ hself) h
                      · rename_i hf4
                        have : v.f4_inRangeNotSelfVerified = true := by simpa using hf4
                        exact headCase hchain (fun hc => by rw [this] at hc; cases hc) h
                  · rename_i hcur
                    have hchain : ∀ c, st.policy = some c → c.verifyNewState newP = .ok () := by
                      intro c hc
                      rw [hcur] at hc; cases hc
                    split at h
                    · split at h
                      · cases h
                      · rename_i hself
                        exact headCase hchain (fun _ => liftP_ok _ _ hself) h
                    · rename_i hf4
                      have : v.f4_inRangeNotSelfVerified = true := by simpa using hf4
                      exact headCase hchain (fun hc => by rw [this] at hc; cases hc) h
            · rename_i hnpol
              have hnpr : ea.ref ≠ policyRef := by simpa using hnpol
              have hpa : W.isPolK first a = false := isPolK_false_of_ref hea hnpr
              have hjr := notHead hpa
              split at h
              · rename_i hatt
                have har : ea.ref = attestationsRef := by simpa using hatt
                have hkref : ea.kind = .ref := by
                  refine kind_ref_of hann ?_
                  intro hk
                  apply hnprop
                  simp [hk, har, gittuf_prefix_att]
                split at h
                · cases h
                · rename_i at' hat'
                  exact ih rest _ _ (hinv.tailAtt hea hkref har hat') h j hjr hjp
              · rename_i hnatt
                have hnar : ea.ref ≠ attestationsRef := by simpa using hnatt
                have haa : W.isAttK first a = false := isAttK_false_of_ref hea hnar
                split at h
                · cases h
                · rename_i P hP
                  split at h
                  · exact ih rest st _ (hinv.tailSame hpa haa) h j hjr hjp
                  · rename_i err hverr
                    split at h
                    · cases h
                    · split at h
                      · cases h
                      · split at h
                        · cases h
                        · rename_i lg hlg
                          simp only at h
                          split at h
                          · cases h
                          · rename_i fix bad newQ hfix
                            split at h
                            · cases h
                            · rename_i hbad
                              have hbad' : bad = false := by simpa using hbad
                              subst hbad'
                              obtain ⟨pre, post, hrest, hnq, hb, hexf, hskf, fe, hfe, htree⟩ :=
                                lookForFix_shape W ea.ref _ rest [] false fix false newQ hfix
                              have hs := List.pairwise_cons.mp hinv.sorted
                              have hfref : fe.ref = ea.ref := by
                                simp only [examinedBy, hfe, Bool.and_eq_true, beq_iff_eq] at hexf
                                exact hexf.1
                              have hsub : ∀ k ∈ newQ, k ∈ rest := by
                                intro k hk
                                rw [hnq] at hk
                                rw [hrest]
                                exact (sublist_newQ _ pre post fix).subset hk
                              have hnewSorted : newQ.Pairwise (· < ·) := by
                                rw [hnq]
                                exact List.Pairwise.sublist (sublist_newQ _ pre post fix) (hrest ▸ hs.2)
                              have htail := hinv.tailSame hpa haa
                              -- a policy / attestation entry of `rest` is re-queued
                              have requeued : ∀ k ∈ rest, (W.isPolK first k = true ∨ W.isAttK first k = true) → k ∈ newQ := by
                                intro k hkr hk3
                                rw [hrest] at hkr
                                rw [hnq]
                                simp only [List.nil_append]
                                have hkref : ∃ e', W.log[k]? = some e' ∧ e'.ref ≠ ea.ref := by
                                  rcases hk3 with hk3 | hk3
                                  · unfold isPolK at hk3
                                    split at hk3
                                    · rename_i e' he'
                                      simp only [Bool.and_eq_true, beq_iff_eq] at hk3
                                      exact ⟨e', he', fun hc => hnpr (hc ▸ hk3.1.2)⟩
                                    · cases hk3
                                  · unfold isAttK at hk3
                                    split at hk3
                                    · rename_i e' he'
                                      simp only [Bool.and_eq_true, beq_iff_eq] at hk3
                                      exact ⟨e', he', fun hc => hnar (hc ▸ hk3.1.2)⟩
                                    · cases hk3
                                obtain ⟨e', he', hne'⟩ := hkref
                                rcases List.mem_append.mp hkr with hk | hk
                                · refine List.mem_append_left _ (List.mem_filter.mpr ⟨hk, ?_⟩)
                                  have : (e'.ref != ea.ref) = true := by simpa using hne'
                                  simp [deferredBy, he', this]
                                · rcases List.mem_cons.mp hk with hk | hk
                                  · subst hk
                                    rw [hfe] at he'; cases he'
                                    exact absurd hfref hne'
                                  · exact List.mem_append_right _ hk
                              have hinvN : SInv W first hi p0 a0 (a + 1) newQ st :=
                                ⟨htail.hfirst, hnewSorted, fun k hk => htail.bounds k (hsub k hk),
                                  fun k hk => htail.upd k (hsub k hk),
                                  fun k hk1 hk2 hk3 => requeued k (htail.complete k hk1 hk2 hk3) hk3,
                                  htail.pol, htail.att⟩
                              have hjn : j ∈ newQ := requeued j hjr (Or.inl hjp)
                              split at h
                              · exact ih newQ st _ hinvN h j hjn hjp
                              · split at h
                                · cases h
                                · split at h
                                  · exact ih newQ st _ hinvN h j hjn hjp
                                  · cases h

/-! ## `LoadState`'s own chain -/

/-- invariant of `chainStates` over an ascending list that holds every policy entry of `[m, hi]` -/
structure CInv (W : World) (f0 hi : Nat) (P0 : Policy) (m : Nat) (js : List Nat) (cur : Policy) : Prop where
  hf : f0 < m
  hm : m ≤ hi + 1
  sorted : js.Pairwise (· < ·)
  bounds : ∀ k ∈ js, m ≤ k ∧ k ≤ hi
  upd : ∀ k ∈ js, ∀ e, W.log[k]? = some e → isUpdater e = true
  complete : ∀ k, m ≤ k → k ≤ hi → W.isPolK f0 k = true → k ∈ js
  pol : some cur = W.polInForce f0 (some P0) m

theorem CInv.noneBelowHead {W : World} {f0 hi : Nat} {P0 : Policy} {m a : Nat} {rest : List Nat} {cur : Policy}
    (h : CInv W f0 hi P0 m (a :: rest) cur) : ∀ k, m ≤ k → k < a → W.isPolK f0 k = false := by
  intro k hk1 hk2
  have hs := List.pairwise_cons.mp h.sorted
  have hahi := (h.bounds a List.mem_cons_self).2
  cases hp : W.isPolK f0 k with
  | false => rfl
  | true =>
    rcases List.mem_cons.mp (h.complete k hk1 (by omega) hp) with hk | hk
    · omega
    · have := hs.1 k hk; omega

theorem CInv.atHead {W : World} {f0 hi : Nat} {P0 : Policy} {m a : Nat} {rest : List Nat} {cur : Policy}
    (h : CInv W f0 hi P0 m (a :: rest) cur) : some cur = W.polInForce f0 (some P0) a := by
  have hma := (h.bounds a List.mem_cons_self).1
  rw [h.pol]; unfold polInForce
  rw [lastBelow_run' (W.isPolK f0) m a hma h.noneBelowHead]

theorem CInv.tail {W : World} {f0 hi : Nat} {P0 : Policy} {m a : Nat} {rest : List Nat} {cur nxt : Policy}
    (h : CInv W f0 hi P0 m (a :: rest) cur) (hp : some nxt = W.polInForce f0 (some P0) (a + 1)) :
    CInv W f0 hi P0 (a + 1) rest nxt := by
  have hs := List.pairwise_cons.mp h.sorted
  have hma := (h.bounds a List.mem_cons_self).1
  have hf := h.hf
  have hahi := (h.bounds a List.mem_cons_self).2
  refine ⟨by omega, by omega, hs.2, ?_, fun k hk => h.upd k (List.mem_cons_of_mem _ hk), ?_, hp⟩
  · intro k hk
    have := hs.1 k hk
    exact ⟨by omega, (h.bounds k (List.mem_cons_of_mem _ hk)).2⟩
  · intro k hk1 hk2 hk3
    rcases List.mem_cons.mp (h.complete k (by omega) hk2 hk3) with hk | hk
    · omega
    · exact hk

/-- **`LoadState`'s chain is unbroken and exact**: if chaining over an ascending, complete list of
entries succeeds, every policy entry in it was accepted by `VerifyNewState` of the state recorded
by the policy entry immediately before it (the starting state for the first), and the result is
the state recorded by the last policy entry. -/
theorem chainStates_exact (W : World) (hpo : W.PolicyRefOnly) (f0 hi : Nat) (P0 : Policy) :
    ∀ (js : List Nat) (cur last : Policy) (m : Nat),
      CInv W f0 hi P0 m js cur → W.chainStates js cur = .ok last →
      (∀ k ∈ js, W.isPolK f0 k = true → ∃ nxt, W.loadRaw k = .ok nxt ∧
        ∀ c, W.polInForce f0 (some P0) k = some c → c.verifyNewState nxt = .ok ()) ∧
      some last = W.polInForce f0 (some P0) (hi + 1) := by
  intro js
  induction js with
  | nil =>
    intro cur last m hinv h
    simp only [chainStates, Except.ok.injEq] at h
    subst h
    refine ⟨fun k hk _ => absurd hk (by simp), ?_⟩
    rw [hinv.pol]; unfold polInForce
    rw [lastBelow_run' (W.isPolK f0) m (hi + 1) hinv.hm (fun k h1 h2 => by
      cases hp : W.isPolK f0 k with
      | false => rfl
      | true => exact absurd (hinv.complete k h1 (by omega) hp) (by simp))]
  | cons a rest ih =>
    intro cur last m hinv h
    unfold chainStates at h
    split at h
    · cases h
    · rename_i ea hea
      have hupd := hinv.upd a List.mem_cons_self ea hea
      have hfa : f0 < a := by have := (hinv.bounds a List.mem_cons_self).1; have := hinv.hf; omega
      split at h
      · rename_i hne
        have hnr : ea.ref ≠ policyRef := by simpa using hne
        have hpa : W.isPolK f0 a = false := isPolK_false_of_ref hea hnr
        have hnext : CInv W f0 hi P0 (a + 1) rest cur := hinv.tail (by
          rw [hinv.atHead]; unfold polInForce; rw [lastBelow_step_neg _ a hpa])
        obtain ⟨h1, h2⟩ := ih cur last _ hnext h
        refine ⟨?_, h2⟩
        intro k hk hkp
        rcases List.mem_cons.mp hk with hk | hk
        · subst hk; rw [hpa] at hkp; cases hkp
        · exact h1 k hk hkp
      · rename_i hisr
        have hr : ea.ref = policyRef := by simpa using hisr
        have hkind : ea.kind = .ref := hpo a ea hea hr hupd
        have hpa : W.isPolK f0 a = true := by simp [isPolK, hea, hkind, hr, hfa]
        split at h
        · cases h
        · rename_i nxt hnxt
          split at h
          · cases h
          · rename_i hvn
            have hvn' := liftP_ok _ _ hvn
            have hnext : CInv W f0 hi P0 (a + 1) rest nxt := hinv.tail (by
              simp only [polInForce, lastBelow_step_pos _ a hpa, hnxt])
            obtain ⟨h1, h2⟩ := ih nxt last _ hnext h
            refine ⟨?_, h2⟩
            intro k hk hkp
            rcases List.mem_cons.mp hk with hk | hk
            · subst hk
              refine ⟨nxt, hnxt, ?_⟩
              intro c hc
              rw [← hinv.atHead] at hc
              cases hc
              exact hvn'
            · exact h1 k hk hkp

end World
end Gittuf
