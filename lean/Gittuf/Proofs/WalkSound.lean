import Gittuf.Proofs.Walk
/-
C06: soundness of the work-list against the declarative walk.
-/
namespace Gittuf.Walk

theorem file?_eq_delegated? (P : Policy) (n : String) (h : n ≠ targetsName) :
    P.file? n = P.delegated? n := by
  unfold Policy.file? Policy.delegated?
  have : (n == targetsName) = false := by simpa using h
  simp [this, h]

theorem ne_targets_of_not_seen {seen : List String} {n : String} (ht : targetsName ∈ seen)
    (hn : seen.contains n = false) : n ≠ targetsName := by
  intro h
  subst h
  have : seen.contains targetsName = true := by simpa using ht
  rw [this] at hn
  cases hn

theorem mem_active_of_split {rules pre post : List Rule} {r : Rule}
    (h : rules = pre ++ r :: post) (hp : post ≠ []) : r ∈ active rules := by
  subst h
  unfold active
  rw [List.dropLast_append_of_ne_nil (by simp)]
  cases post with
  | nil => exact absurd rfl hp
  | cons y ys => simp [List.dropLast]

theorem verifierOf_mk (r : Rule) (allP : PMap) : VerifierOf (mkVerifier r allP) r := ⟨rfl, rfl, rfl⟩

/-- comes from a matching non-trailing rule of a reachable file -/
def FromReach (P : Policy) (m : Rule → Bool) (v : WVerifier) : Prop :=
  ∃ F r, Reach P m F ∧ r ∈ active F.rules ∧ m r = true ∧ VerifierOf v r

structure RInv (P : Policy) (m : Rule → Bool) (cur : List Rule) (groups : List (List Rule))
    (seen : List String) (acc : List WVerifier) : Prop where
  tgt : targetsName ∈ seen
  acc : ∀ v ∈ acc, FromReach P m v
  cur : cur = [] ∨ ∃ F pre, Reach P m F ∧ F.rules = pre ++ cur
  groups : ∀ g ∈ groups, ∃ F, Reach P m F ∧ F.rules = g

theorem RInv.pop {P m cur g gs seen acc} (h : RInv P m cur (g :: gs) seen acc) : RInv P m g gs seen acc := by
  obtain ⟨F, hF, hg⟩ := h.groups g (by simp)
  exact ⟨h.tgt, h.acc, Or.inr ⟨F, [], hF, by simpa using hg⟩, fun g' hg' => h.groups g' (by simp [hg'])⟩

theorem walk_sound_reach_aux (m : Rule → Bool) (P : Policy) :
    ∀ (fuel : Nat) (cur : List Rule) (groups : List (List Rule)) (seen : List String) (allP : PMap)
      (acc R : List WVerifier), RInv P m cur groups seen acc →
      walk m P fuel cur groups seen allP acc = some R → ∀ v ∈ R, FromReach P m v := by
  intro fuel
  induction fuel with
  | zero => intro cur groups seen allP acc R _ h; simp [walk] at h
  | succ fuel ih =>
    intro cur groups seen allP acc R inv h
    match cur, inv, h with
    | [], inv, h =>
      cases groups with
      | nil => simp only [walk, Option.some.injEq] at h; subst h; exact inv.acc
      | cons g gs => simp only [walk] at h; exact ih _ _ _ _ _ _ inv.pop h
    | [a], inv, h =>
      cases groups with
      | nil => simp only [walk, Option.some.injEq] at h; subst h; exact inv.acc
      | cons g gs => simp only [walk] at h; exact ih _ _ _ _ _ _ inv.pop h
    | d :: x :: xs, inv, h =>
      obtain ⟨F, pre, hF, hsplit⟩ : ∃ F pre, Reach P m F ∧ F.rules = pre ++ d :: x :: xs := by
        rcases inv.cur with h0 | h0
        · cases h0
        · exact h0
      have hd : d ∈ active F.rules := mem_active_of_split hsplit (by simp)
      have hnext : ∃ F pre, Reach P m F ∧ F.rules = pre ++ x :: xs :=
        ⟨F, pre ++ [d], hF, by simp [hsplit]⟩
      simp only [walk] at h
      by_cases hm : m d = true
      · have hacc : ∀ v ∈ acc ++ [mkVerifier d allP], FromReach P m v := by
          intro v hv
          rcases List.mem_append.mp hv with hv | hv
          · exact inv.acc v hv
          · simp only [List.mem_singleton] at hv
            subst hv
            exact ⟨F, d, hF, hd, hm, verifierOf_mk d allP⟩
        simp only [hm, if_true] at h
        by_cases hs : seen.contains d.name = true
        · simp only [hs, if_true] at h
          exact ih _ _ _ _ _ _ ⟨inv.tgt, hacc, Or.inr hnext, inv.groups⟩ h
        · simp only [hs] at h
          have hs' : seen.contains d.name = false := by simpa using hs
          have hne := ne_targets_of_not_seen inv.tgt hs'
          cases hf : P.file? d.name with
          | none =>
            simp only [hf] at h
            exact ih _ _ _ _ _ _ ⟨inv.tgt, hacc, Or.inr hnext, inv.groups⟩ h
          | some f =>
            simp only [hf] at h
            have hdel : P.delegated? d.name = some f := by rw [← file?_eq_delegated? P _ hne]; exact hf
            have hRf : Reach P m f := Reach.deleg hF hd hm hdel
            have hgroups : ∀ g ∈ f.rules :: groups, ∃ F, Reach P m F ∧ F.rules = g := by
              intro g hg
              rcases List.mem_cons.mp hg with hg | hg
              · exact ⟨f, hRf, hg.symm⟩
              · exact inv.groups g hg
            have htgt : targetsName ∈ d.name :: seen := List.mem_cons_of_mem _ inv.tgt
            by_cases ht : d.terminating = true
            · simp only [ht, if_true] at h
              exact ih _ _ _ _ _ _ ⟨htgt, hacc, Or.inl rfl, hgroups⟩ h
            · simp only [ht] at h
              exact ih _ _ _ _ _ _ ⟨htgt, hacc, Or.inr hnext, hgroups⟩ h
      · simp only [hm] at h
        exact ih _ _ _ _ _ _ ⟨inv.tgt, inv.acc, Or.inr hnext, inv.groups⟩ h

/-! ### soundness against `Consulted` (with the terminating cut-off) under unique rule names -/

/-- number of not yet consulted, consultable rules named `n`: in the current group, in the
queued groups and in the delegated files not yet entered -/
def cnt (P : Policy) (n : String) (cur : List Rule) (groups : List (List Rule)) (seen : List String) : Nat :=
  nameCount n cur + (groups.map (nameCount n)).sum + unseenW (fun e => nameCount n e.2.rules) seen P.files

def UInv (P : Policy) (cur : List Rule) (groups : List (List Rule)) (seen : List String) : Prop :=
  ∀ n, cnt P n cur groups seen ≤ 1 ∧ (n ∈ seen → n ≠ targetsName → cnt P n cur groups seen = 0)

theorem nameCount_nil (n : String) : nameCount n [] = 0 := rfl
theorem nameCount_single (n : String) (a : Rule) : nameCount n [a] = 0 := rfl
theorem nameCount_cons2 (n : String) (d x : Rule) (xs : List Rule) :
    nameCount n (d :: x :: xs) = (if d.name == n then 1 else 0) + nameCount n (x :: xs) := by
  unfold nameCount active
  rw [List.dropLast_cons_cons, List.countP_cons]
  omega

theorem UInv.pop {P : Policy} {cur g gs seen} (h : UInv P cur (g :: gs) seen) (hc : cur = [] ∨ ∃ a, cur = [a]) :
    UInv P g gs seen := by
  have e : ∀ n, cnt P n g gs seen = cnt P n cur (g :: gs) seen := by
    intro n
    unfold cnt
    rcases hc with hc | ⟨a, hc⟩ <;> subst hc
    · simp only [nameCount_nil, List.map_cons, List.sum_cons]; omega
    · simp only [nameCount_single, List.map_cons, List.sum_cons]; omega
  intro n
  rw [e n]
  exact h n

/-- consulting `d` without entering a file -/
theorem UInv.step {P : Policy} {d x : Rule} {xs groups seen} (h : UInv P (d :: x :: xs) groups seen) :
    UInv P (x :: xs) groups seen := by
  have e : ∀ n, cnt P n (x :: xs) groups seen ≤ cnt P n (d :: x :: xs) groups seen := by
    intro n
    unfold cnt
    rw [nameCount_cons2]
    omega
  intro n
  have := h n
  have := e n
  refine ⟨by omega, fun h1 h2 => ?_⟩
  have := (h n).2 h1 h2
  omega

/-- consulting `d` and entering the file `f` found under its name -/
theorem UInv.enter {P : Policy} {d x : Rule} {xs groups seen} {f : RuleFile} {cur' : List Rule}
    (h : UInv P (d :: x :: xs) groups seen) (hs : seen.contains d.name = false)
    (hl : P.files.lookup d.name = some f) (hc : cur' = [] ∨ cur' = x :: xs) :
    UInv P cur' (f.rules :: groups) (d.name :: seen) := by
  have e : ∀ n, cnt P n cur' (f.rules :: groups) (d.name :: seen) + (if d.name == n then 1 else 0) ≤
      cnt P n (d :: x :: xs) groups seen := by
    intro n
    unfold cnt
    rw [nameCount_cons2]
    have hu := unseenW_enter (fun e => nameCount n e.2.rules) seen d.name f P.files hs hl
    have hcur : nameCount n cur' ≤ nameCount n (x :: xs) := by
      rcases hc with hc | hc <;> subst hc
      · simp [nameCount_nil]
      · exact Nat.le_refl _
    simp only [List.map_cons, List.sum_cons]
    simp only at hu
    omega
  intro n
  have h1 := h n
  have h2 := e n
  refine ⟨by omega, fun hmem hne => ?_⟩
  rcases List.mem_cons.mp hmem with hmem | hmem
  · subst hmem
    simp only [beq_self_eq_true, if_true] at h2
    omega
  · have := h1.2 hmem hne
    omega

/-- a rule still to be consulted whose name is already in `seenRoles` is named "targets" -/
theorem UInv.seen_head {P : Policy} {d x : Rule} {xs groups seen} (h : UInv P (d :: x :: xs) groups seen)
    (hs : seen.contains d.name = true) : d.name = targetsName := by
  apply Classical.byContradiction
  intro hne
  have := (h d.name).2 (by simpa using hs) hne
  unfold cnt at this
  rw [nameCount_cons2] at this
  simp at this

def FromConsulted (P : Policy) (m : Rule → Bool) (v : WVerifier) : Prop :=
  ∃ F r, Consulted P m F r ∧ m r = true ∧ VerifierOf v r

structure CInv (P : Policy) (m : Rule → Bool) (cur : List Rule) (groups : List (List Rule))
    (seen : List String) (acc : List WVerifier) : Prop where
  tgt : targetsName ∈ seen
  accOk : ∀ v ∈ acc, FromConsulted P m v
  curOk : cur = [] ∨ ∃ F pre, Entered P m F ∧ F.rules = pre ++ cur ∧ ∀ r' ∈ pre, ¬ Cuts P m r'
  groupsOk : ∀ g ∈ groups, ∃ F, Entered P m F ∧ F.rules = g
  uniq : UInv P cur groups seen

theorem CInv.pop {P m cur g gs seen acc} (h : CInv P m cur (g :: gs) seen acc) (hc : cur = [] ∨ ∃ a, cur = [a]) :
    CInv P m g gs seen acc := by
  obtain ⟨F, hF, hg⟩ := h.groupsOk g (by simp)
  exact ⟨h.tgt, h.accOk, Or.inr ⟨F, [], hF, by simpa using hg, by simp⟩,
    fun g' hg' => h.groupsOk g' (by simp [hg']), h.uniq.pop hc⟩

theorem delegated?_targets (P : Policy) : P.delegated? targetsName = none := by
  simp [Policy.delegated?]

theorem walk_sound_aux (m : Rule → Bool) (P : Policy) :
    ∀ (fuel : Nat) (cur : List Rule) (groups : List (List Rule)) (seen : List String) (allP : PMap)
      (acc R : List WVerifier), CInv P m cur groups seen acc →
      walk m P fuel cur groups seen allP acc = some R → ∀ v ∈ R, FromConsulted P m v := by
  intro fuel
  induction fuel with
  | zero => intro cur groups seen allP acc R _ h; simp [walk] at h
  | succ fuel ih =>
    intro cur groups seen allP acc R inv h
    match cur, inv, h with
    | [], inv, h =>
      cases groups with
      | nil => simp only [walk, Option.some.injEq] at h; subst h; exact inv.accOk
      | cons g gs => simp only [walk] at h; exact ih _ _ _ _ _ _ (inv.pop (Or.inl rfl)) h
    | [a], inv, h =>
      cases groups with
      | nil => simp only [walk, Option.some.injEq] at h; subst h; exact inv.accOk
      | cons g gs => simp only [walk] at h; exact ih _ _ _ _ _ _ (inv.pop (Or.inr ⟨a, rfl⟩)) h
    | d :: x :: xs, inv, h =>
      obtain ⟨F, pre, hF, hsplit, hnocut⟩ :
          ∃ F pre, Entered P m F ∧ F.rules = pre ++ d :: x :: xs ∧ ∀ r' ∈ pre, ¬ Cuts P m r' := by
        rcases inv.curOk with h0 | h0
        · cases h0
        · exact h0
      have hd : ConsultedIn P m F d := ⟨pre, x :: xs, hsplit, by simp, hnocut⟩
      -- the invariant for the rest of the group, once `d` is known not to cut
      have hnext : ¬ Cuts P m d →
          ∃ F pre, Entered P m F ∧ F.rules = pre ++ x :: xs ∧ ∀ r' ∈ pre, ¬ Cuts P m r' := by
        intro hc
        refine ⟨F, pre ++ [d], hF, by simp [hsplit], ?_⟩
        intro r' hr'
        rcases List.mem_append.mp hr' with hr' | hr'
        · exact hnocut r' hr'
        · simp only [List.mem_singleton] at hr'
          subst hr'
          exact hc
      simp only [walk] at h
      by_cases hm : m d = true
      · have hacc : ∀ v ∈ acc ++ [mkVerifier d allP], FromConsulted P m v := by
          intro v hv
          rcases List.mem_append.mp hv with hv | hv
          · exact inv.accOk v hv
          · simp only [List.mem_singleton] at hv
            subst hv
            exact ⟨F, d, ⟨hF, hd⟩, hm, verifierOf_mk d allP⟩
        simp only [hm, if_true] at h
        by_cases hs : seen.contains d.name = true
        · simp only [hs, if_true] at h
          have hnc : ¬ Cuts P m d := by
            intro hc
            have hn := inv.uniq.seen_head hs
            have := hc.2.2
            rw [hn, delegated?_targets] at this
            cases this
          exact ih _ _ _ _ _ _ ⟨inv.tgt, hacc, Or.inr (hnext hnc), inv.groupsOk, inv.uniq.step⟩ h
        · simp only [hs] at h
          have hs' : seen.contains d.name = false := by simpa using hs
          have hne := ne_targets_of_not_seen inv.tgt hs'
          cases hf : P.file? d.name with
          | none =>
            simp only [hf] at h
            have hnc : ¬ Cuts P m d := by
              intro hc
              have := hc.2.2
              rw [← file?_eq_delegated? P _ hne, hf] at this
              cases this
            exact ih _ _ _ _ _ _ ⟨inv.tgt, hacc, Or.inr (hnext hnc), inv.groupsOk, inv.uniq.step⟩ h
          | some f =>
            simp only [hf] at h
            have hdel : P.delegated? d.name = some f := by rw [← file?_eq_delegated? P _ hne]; exact hf
            have hlook : P.files.lookup d.name = some f := by
              simpa [Policy.delegated?, hne] using hdel
            have hEf : Entered P m f := Entered.deleg hF hd hm hdel
            have hgroups : ∀ g ∈ f.rules :: groups, ∃ F, Entered P m F ∧ F.rules = g := by
              intro g hg
              rcases List.mem_cons.mp hg with hg | hg
              · exact ⟨f, hEf, hg.symm⟩
              · exact inv.groupsOk g hg
            have htgt : targetsName ∈ d.name :: seen := List.mem_cons_of_mem _ inv.tgt
            by_cases ht : d.terminating = true
            · simp only [ht, if_true] at h
              exact ih _ _ _ _ _ _ ⟨htgt, hacc, Or.inl rfl, hgroups, inv.uniq.enter hs' hlook (Or.inl rfl)⟩ h
            · simp only [ht] at h
              have hnc : ¬ Cuts P m d := fun hc => ht hc.2.1
              exact ih _ _ _ _ _ _ ⟨htgt, hacc, Or.inr (hnext hnc), hgroups, inv.uniq.enter hs' hlook (Or.inr rfl)⟩ h
      · simp only [hm] at h
        have hnc : ¬ Cuts P m d := fun hc => hm hc.1
        exact ih _ _ _ _ _ _ ⟨inv.tgt, inv.accOk, Or.inr (hnext hnc), inv.groupsOk, inv.uniq.step⟩ h

end Gittuf.Walk
