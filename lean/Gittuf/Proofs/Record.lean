import Gittuf.Proofs.Log
/-
Helper lemmas for C03: what one recording operation does to the store and to the log.
-/
namespace Gittuf.RSL

theorem foldr_max_ge : ∀ (l : List Nat) (a : Nat), a ∈ l → a ≤ l.foldr max 0 := by
  intro l
  induction l with
  | nil => intro a h; cases h
  | cons b l ih =>
    intro a h
    simp only [List.foldr_cons]
    rcases List.mem_cons.mp h with h | h
    · subst h; exact Nat.le_max_left _ _
    · exact Nat.le_trans (ih a h) (Nat.le_max_right _ _)

theorem lookup_none_of_not_mem {α} : ∀ (cs : List (Nat × α)) (i : Nat), i ∉ cs.map (·.1) → cs.lookup i = none := by
  intro cs
  induction cs with
  | nil => intro i _; rfl
  | cons a cs ih =>
    intro i h
    obtain ⟨k, v⟩ := a
    simp only [List.map_cons, List.mem_cons, not_or] at h
    simp only [List.lookup]
    have : (i == k) = false := by simpa using h.1
    simp only [this]
    exact ih i h.2

theorem get_fresh (s : Store) : s.get s.fresh = none := by
  unfold Store.get
  apply lookup_none_of_not_mem
  intro h
  have h2 : s.fresh ≤ (s.commits.map (·.1)).foldr max 0 := foldr_max_ge _ _ h
  have h3 : s.fresh = (s.commits.map (·.1)).foldr max 0 + 1 := rfl
  rw [h3] at h2
  exact Nat.not_succ_le_self _ h2

/-- the store after `commitEntry` -/
theorem commitEntry_get_new (s : Store) (e : Entry) :
    (commitEntry s e).1.get s.fresh = some ⟨s.tip.toList, parseBack e⟩ := by
  simp [commitEntry, Store.get]

theorem commitEntry_get_old (s : Store) (e : Entry) {j : Id} {c : Commit} (h : s.get j = some c) :
    (commitEntry s e).1.get j = some c := by
  have hne : j ≠ s.fresh := by
    intro heq; rw [heq, get_fresh] at h; cases h
  have : (j == s.fresh) = false := by simpa using hne
  simp only [commitEntry, Store.get, List.lookup, this]
  exact h

theorem commitEntry_tip (s : Store) (e : Entry) : (commitEntry s e).1.tip = some s.fresh := rfl
theorem commitEntry_id (s : Store) (e : Entry) : (commitEntry s e).2 = s.fresh := rfl

theorem ChainFrom.mono {s s' : Store} (hext : ∀ j c, s.get j = some c → s'.get j = some c)
    {t : Id} {l : List LEntry} (h : ChainFrom s t l) : ChainFrom s' t l := by
  induction h with
  | root hg => exact ChainFrom.root (hext _ _ hg)
  | cons hg _ hl ih => exact ChainFrom.cons (hext _ _ hg) ih hl

theorem linkOk_succ (k : Nat) : linkOk (k + 1) k = true := by
  cases k with
  | zero => rfl
  | succ n => simp [linkOk]

theorem linkOk_zero_zero : linkOk 0 0 = true := rfl

/-- Appending one commit that parses as `e` on top of the log `l`. -/
theorem commitEntry_isLog {s : Store} {l : List LEntry} (e : Entry) (hl : IsLog s l)
    (hparse : parseBack e = some e)
    (hnum : ∀ x rest, l = x :: rest → linkOk e.number x.number = true) :
    IsLog (commitEntry s e).1 (⟨s.fresh, e⟩ :: l) := by
  unfold IsLog at hl ⊢
  rw [commitEntry_tip]
  simp only
  cases htip : s.tip with
  | none =>
    rw [htip] at hl
    simp only at hl
    subst hl
    apply ChainFrom.root
    rw [commitEntry_get_new, htip, hparse]; rfl
  | some t =>
    rw [htip] at hl
    simp only at hl
    have hold : ChainFrom (commitEntry s e).1 t l := hl.mono (fun j c h => commitEntry_get_old s e h)
    obtain ⟨x, rest, hxl, _, _⟩ := hl.head
    subst hxl
    apply ChainFrom.cons (p := t)
    · rw [commitEntry_get_new, htip, hparse]; rfl
    · exact hold
    · exact hnum x rest rfl

theorem setEntryNumber_nil {s : Store} (hl : IsLog s []) : setEntryNumber s = .ok 1 := by
  unfold IsLog at hl
  cases htip : s.tip with
  | none => simp [setEntryNumber, getLatestEntry, htip]
  | some t =>
    rw [htip] at hl
    simp only at hl
    obtain ⟨x, rest, h, _⟩ := hl.head
    cases h

theorem getLatestEntry_cons {s : Store} {x : LEntry} {rest : List LEntry} (hl : IsLog s (x :: rest)) :
    getLatestEntry s = .ok x := by
  unfold IsLog at hl
  cases htip : s.tip with
  | none => rw [htip] at hl; simp at hl
  | some t =>
    rw [htip] at hl
    simp only at hl
    obtain ⟨y, rest', h, _, hge⟩ := hl.head
    cases h
    simp [getLatestEntry, htip, hge]

theorem setEntryNumber_cons {s : Store} {x : LEntry} {rest : List LEntry} (hl : IsLog s (x :: rest)) :
    setEntryNumber s = .ok (x.number + 1) := by
  simp [setEntryNumber, getLatestEntry_cons hl]

theorem commitEntry_extends (s : Store) (e : Entry) : Extends s (commitEntry s e).1 := by
  refine ⟨fun j c h => commitEntry_get_old s e h, ?_⟩
  intro t ht
  refine ⟨s.fresh, commitEntry_tip s e, ?_⟩
  exact Reach.step (commitEntry_get_new s e) (by simp [ht]) (Reach.refl t)

theorem Extends.refl (s : Store) : Extends s s :=
  ⟨fun _ _ h => h, fun t ht => ⟨t, ht, Reach.refl t⟩⟩

theorem Reach.mono {s s' : Store} (hext : ∀ j c, s.get j = some c → s'.get j = some c) {a b : Id}
    (h : Reach s a b) : Reach s' a b := by
  induction h with
  | refl a => exact Reach.refl a
  | step hg hp _ ih => exact Reach.step (hext _ _ hg) hp ih

theorem Reach.trans {s : Store} {a b c : Id} (h1 : Reach s a b) (h2 : Reach s b c) : Reach s a c := by
  induction h1 with
  | refl a => exact h2
  | step hg hp _ ih => exact Reach.step hg hp (ih h2)

theorem Extends.trans {s1 s2 s3 : Store} (h12 : Extends s1 s2) (h23 : Extends s2 s3) : Extends s1 s3 := by
  refine ⟨fun j c h => h23.1 j c (h12.1 j c h), ?_⟩
  intro t ht
  obtain ⟨t2, ht2, hr2⟩ := h12.2 t ht
  obtain ⟨t3, ht3, hr3⟩ := h23.2 t2 ht2
  exact ⟨t3, ht3, hr3.trans (hr2.mono h23.1)⟩

theorem checkIds_ok {s : Store} : ∀ {ids : List Id}, checkIds s ids = .ok () → ∀ i ∈ ids, ∃ x, getEntry s i = .ok x := by
  intro ids
  induction ids with
  | nil => intro _ i hi; cases hi
  | cons a ids ih =>
    intro h i hi
    unfold checkIds at h
    cases hg : getEntry s a with
    | error e => simp [hg] at h
    | ok x =>
      simp only [hg] at h
      rcases List.mem_cons.mp hi with h1 | h1
      · subst h1; exact ⟨x, hg⟩
      · exact ih h i h1

theorem checkIds_error {s : Store} : ∀ {ids : List Id} {i : Id}, i ∈ ids → (∀ x, getEntry s i ≠ .ok x) →
    ∃ e, checkIds s ids = .error e := by
  intro ids i hi hbad
  cases h : checkIds s ids with
  | error e => exact ⟨e, rfl⟩
  | ok u =>
    cases u
    obtain ⟨x, hx⟩ := checkIds_ok h i hi
    exact absurd hx (hbad x)

/-- annotations of the log name only commits that are in the store -/
def AnnClosed (s : Store) (l : List LEntry) : Prop :=
  ∀ a ∈ l, ∀ i, a.e.refersTo i = true → s.get i ≠ none

theorem refersTo_mem {ids : List Id} {sk : Bool} {m : String} {n : Nat} {i : Id}
    (h : (Entry.annotation ids sk m n).refersTo i = true) : i ∈ ids := by
  simpa [Entry.refersTo] using h

theorem parseBack_some {e e' : Entry} (h : parseBack e = some e') : e' = e := by
  unfold parseBack at h
  split at h
  · cases h
  · cases h; rfl

/-- a successful operation is one `commitEntry` of an entry naming only stored ids -/
theorem step_ok_entry {s s' : Store} {op : Op} {ids : List Id} (h : step s op = (s', .ok ids)) :
    ∃ e, s' = (commitEntry s e).1 ∧ ∀ i, e.refersTo i = true → s.get i ≠ none := by
  have hann : ∀ aids sk m n, checkIds s aids = .ok () →
      ∀ i, (Entry.annotation aids sk m n).refersTo i = true → s.get i ≠ none := by
    intro aids sk m n hck i hi
    obtain ⟨z, hz⟩ := checkIds_ok hck i (refersTo_mem hi)
    obtain ⟨c, hc', _⟩ := getEntry_get hz
    rw [hc']; simp
  cases op with
  | reference r t =>
    simp only [step] at h
    cases hn : setEntryNumber s with
    | error e => simp [hn] at h
    | ok n =>
      simp only [hn, Prod.mk.injEq] at h
      exact ⟨_, h.1.symm, by intro i hi; simp [Entry.refersTo] at hi⟩
  | propagation r t u ue =>
    simp only [step] at h
    cases hn : setEntryNumber s with
    | error e => simp [hn] at h
    | ok n =>
      simp only [hn, Prod.mk.injEq] at h
      exact ⟨_, h.1.symm, by intro i hi; simp [Entry.refersTo] at hi⟩
  | referenceLegacy r t =>
    simp only [step, Prod.mk.injEq] at h
    exact ⟨_, h.1.symm, by intro i hi; simp [Entry.refersTo] at hi⟩
  | annotation aids sk m =>
    simp only [step] at h
    cases hck : checkIds s aids with
    | error e => simp [hck] at h
    | ok u =>
      cases u
      cases hn : setEntryNumber s with
      | error e => simp [hck, hn] at h
      | ok n =>
        simp only [hck, hn, Prod.mk.injEq] at h
        exact ⟨_, h.1.symm, hann aids sk m n hck⟩
  | annotationLegacy aids sk m =>
    simp only [step] at h
    cases hck : checkIds s aids with
    | error e => simp [hck] at h
    | ok u =>
      cases u
      simp only [hck, Prod.mk.injEq] at h
      exact ⟨_, h.1.symm, hann aids sk m 0 hck⟩

/-- the numbering rule in words: a numbered entry is its parent's number plus one (so 1
right after unnumbered entries); an unnumbered entry has an unnumbered parent -/
theorem linkOk_iff (n p : Nat) : linkOk n p = true ↔ (n = p + 1 ∨ (n = 0 ∧ p = 0)) := by
  cases n with
  | zero => simp [linkOk]
  | succ k =>
    cases k with
    | zero => simp [linkOk]
    | succ j => simp [linkOk]; omega

theorem ChainFrom.shape {s : Store} {t : Id} {l : List LEntry} (h : ChainFrom s t l) :
    (∀ a x y b, l = a ++ x :: y :: b →
      s.get x.id = some ⟨[y.id], some x.e⟩ ∧ (x.number = y.number + 1 ∨ (x.number = 0 ∧ y.number = 0))) ∧
    (∀ a z, l = a ++ [z] → s.get z.id = some ⟨[], some z.e⟩) := by
  induction h with
  | @root i e hg =>
    constructor
    · intro a x y b hl
      have := congrArg List.length hl
      simp at this
      omega
    · intro a z hl
      cases a with
      | nil => simp at hl; subst hl; exact hg
      | cons _ a' =>
        have := congrArg List.length hl
        simp at this
  | @cons i e p pe l hg hch hlink ih =>
    obtain ⟨y0, rest0, hy0, hid0, _⟩ := hch.head
    cases hy0
    constructor
    · intro a x y b hl
      cases a with
      | nil =>
        simp only [List.nil_append, List.cons.injEq] at hl
        obtain ⟨hx, hy, _⟩ := hl
        subst hx; subst hy
        refine ⟨by rw [hid0]; exact hg, (linkOk_iff _ _).mp hlink⟩
      | cons a0 a' =>
        simp only [List.cons_append, List.cons.injEq] at hl
        exact ih.1 a' x y b hl.2
    · intro a z hl
      cases a with
      | nil => simp at hl
      | cons a0 a' =>
        simp only [List.cons_append, List.cons.injEq] at hl
        exact ih.2 a' z hl.2

end Gittuf.RSL
