import Gittuf.Proofs.SigComplete
/-!
C05, second half, with the Git object's own signature: for key-disjoint principals the count is
exact, so a rule is satisfied whenever enough of its principals signed — the Git object, the
envelope, or both.  Core Lean only.
-/
namespace Gittuf

/-- invariant of the envelope phase started after the Git phase credited principal `G` -/
structure CompInvG (e : Envelope) (G : Option Principal) (done : List Principal) (st : VState) : Prop where
  keys : ∀ k ∈ st.2, (∃ P ∈ done, k ∈ P.keys) ∨ (∃ Q, G = some Q ∧ k ∈ Q.keys)
  cred : ∀ P ∈ done, SignedEnv e P → P.id ∈ st.1
  gcred : ∀ Q, G = some Q → Q.id ∈ st.1

theorem envStep_compG (e : Envelope) (hne : e.sigs ≠ []) (all : List Principal) (hd : DisjointKeys all)
    (G : Option Principal) (hG : ∀ Q, G = some Q → Q ∈ all)
    (done : List Principal) (P : Principal) (hdone : ∀ Q ∈ done, Q ∈ all) (hP : P ∈ all)
    (hnot : P ∉ done) (st : VState) (hinv : CompInvG e G done st) :
    ∃ st', envStep e st P = .ok st' ∧ CompInvG e G (done ++ [P]) st' ∧ (∀ p ∈ st.1, p ∈ st'.1) := by
  have keysMono : ∀ k ∈ st.2, (∃ P' ∈ done ++ [P], k ∈ P'.keys) ∨ (∃ Q, G = some Q ∧ k ∈ Q.keys) := by
    intro k hk
    rcases hinv.keys k hk with ⟨Q, hQ, hkQ⟩ | h
    · exact Or.inl ⟨Q, List.mem_append_left _ hQ, hkQ⟩
    · exact Or.inr h
  unfold envStep
  split
  · -- already credited (through the Git signature)
    rename_i hin
    refine ⟨st, rfl, ⟨keysMono, ?_, hinv.gcred⟩, fun p hp => hp⟩
    intro Q hQ hs
    rcases List.mem_append.mp hQ with hQ | hQ
    · exact hinv.cred Q hQ hs
    · simp only [List.mem_singleton] at hQ; subst hQ; simpa using hin
  · rename_i hnin
    have hnin' : P.id ∉ st.1 := by simpa using hnin
    -- keys of P are all unused
    have hfree : ∀ k ∈ P.keys, k ∉ st.2 := by
      intro k hk hused
      rcases hinv.keys k hused with ⟨Q, hQ, hkQ⟩ | ⟨Q, hGQ, hkQ⟩
      · have := hd.2 P hP Q (hdone Q hQ) k hk hkQ
        subst this
        exact hnot hQ
      · have := hd.2 P hP Q (hG Q hGQ) k hk hkQ
        subst this
        exact hnin' (hinv.gcred P hGQ)
    have hfilter : P.keys.filter (fun k => !st.2.contains k) = P.keys := by
      rw [List.filter_eq_self]
      intro k hk
      simpa using hfree k hk
    simp only [hfilter]
    split
    · rename_i hemp
      refine ⟨st, rfl, ⟨keysMono, ?_, hinv.gcred⟩, fun p hp => hp⟩
      intro Q hQ hs
      rcases List.mem_append.mp hQ with hQ | hQ
      · exact hinv.cred Q hQ hs
      · simp only [List.mem_singleton] at hQ; subst hQ
        obtain ⟨k, hk, _⟩ := hs
        have : Q.keys = [] := by simpa using hemp
        rw [this] at hk; cases hk
    · split
      · rename_i hs; exact absurd (by simpa using hs) hne
      · split
        · rename_i hacc
          refine ⟨st, rfl, ⟨keysMono, ?_, hinv.gcred⟩, fun p hp => hp⟩
          intro Q hQ hs
          rcases List.mem_append.mp hQ with hQ | hQ
          · exact hinv.cred Q hQ hs
          · simp only [List.mem_singleton] at hQ; subst hQ
            exfalso
            obtain ⟨k, hk, s, hs', hok⟩ := hs
            have := accepted_nonempty e.digest e.sigs Q.keys ⟨s, hs', k, hk, hok⟩
            exact this (by simpa [acceptedKeys] using hacc)
        · refine ⟨_, rfl, ⟨?_, ?_, fun Q hQ => List.mem_append_left _ (hinv.gcred Q hQ)⟩,
            fun p hp => List.mem_append_left _ hp⟩
          · intro k hk
            rcases List.mem_append.mp hk with hk | hk
            · exact keysMono k hk
            · exact Or.inl ⟨P, List.mem_append_right _ (by simp), accepted_subset _ _ _ k hk⟩
          · intro Q hQ hs
            rcases List.mem_append.mp hQ with hQ | hQ
            · exact List.mem_append_left _ (hinv.cred Q hQ hs)
            · simp only [List.mem_singleton] at hQ; subst hQ
              exact List.mem_append_right _ (by simp)

theorem envPhase_compG (e : Envelope) (hne : e.sigs ≠ []) (all : List Principal) (hd : DisjointKeys all)
    (G : Option Principal) (hG : ∀ Q, G = some Q → Q ∈ all)
    (todo : List Principal) (done : List Principal) (hdone : ∀ Q ∈ done, Q ∈ all)
    (htodo : ∀ Q ∈ todo, Q ∈ all) (hsplit : (done ++ todo).Nodup) (st : VState) (hinv : CompInvG e G done st) :
    ∃ st', envPhase e todo st = .ok st' ∧ CompInvG e G (done ++ todo) st' ∧ (∀ p ∈ st.1, p ∈ st'.1) := by
  induction todo generalizing done st with
  | nil => exact ⟨st, rfl, by simpa using hinv, fun p hp => hp⟩
  | cons P ps ih =>
    have hPnot : P ∉ done := by
      intro h
      have := (List.nodup_append.mp hsplit).2.2 P h P List.mem_cons_self
      exact this rfl
    obtain ⟨st1, hst1, hinv1, hmono1⟩ := envStep_compG e hne all hd G hG done P hdone (htodo P List.mem_cons_self) hPnot st hinv
    have hdone' : ∀ Q ∈ done ++ [P], Q ∈ all := by
      intro Q hQ
      rcases List.mem_append.mp hQ with hQ | hQ
      · exact hdone Q hQ
      · simp only [List.mem_singleton] at hQ; subst hQ; exact htodo Q List.mem_cons_self
    have hsplit' : ((done ++ [P]) ++ ps).Nodup := by simpa [List.append_assoc] using hsplit
    obtain ⟨st2, hst2, hinv2, hmono2⟩ := ih (done ++ [P]) hdone' (fun Q hQ => htodo Q (List.mem_cons_of_mem _ hQ)) hsplit' st1 hinv1
    refine ⟨st2, ?_, by simpa [List.append_assoc] using hinv2, fun p hp => hmono2 p (hmono1 p hp)⟩
    unfold envPhase
    rw [hst1]
    exact hst2

/-- principal `P` signed the Git object with one of its keys -/
def gitSignedB (g : Option Sig) (gd : Digest) (P : Principal) : Bool :=
  match g with
  | none => false
  | some s => P.keys.any (fun k => s.okFor k gd)

def envSignedB (env : Option Envelope) (P : Principal) : Bool :=
  match env with
  | none => false
  | some e => signedB e P

theorem gitPhase_none (ps : List Principal) (g : Option Sig) (gd : Digest)
    (h : gitPhase ps g gd = none) : ∀ P ∈ ps, gitSignedB g gd P = false := by
  intro P hP
  unfold gitPhase at h
  cases g with
  | none => rfl
  | some s =>
    simp only at h
    have := List.findSome?_eq_none_iff.mp h P hP
    simp only [Option.map_eq_none_iff] at this
    have hk := List.find?_eq_none.mp this
    simp only [gitSignedB]
    rw [Bool.eq_false_iff]
    intro hany
    obtain ⟨k, hk1, hk2⟩ := List.any_eq_true.mp hany
    exact hk k hk1 hk2

theorem gitPhase_some' (ps : List Principal) (g : Option Sig) (gd : Digest) (p : PId) (k : KeyId)
    (h : gitPhase ps g gd = some (p, k)) :
    ∃ s Q, g = some s ∧ Q ∈ ps ∧ Q.id = p ∧ k ∈ Q.keys ∧ s.okFor k gd = true := by
  unfold gitPhase at h
  cases g with
  | none => cases h
  | some s =>
    simp only at h
    obtain ⟨Q, hQ, hmap⟩ := List.exists_of_findSome?_eq_some h
    simp only [Option.map_eq_some_iff] at hmap
    obtain ⟨k', hfind, heq⟩ := hmap
    cases heq
    have hok : s.okFor k gd = true := by
      have := List.find?_some hfind
      simpa using this
    exact ⟨s, Q, rfl, hQ, rfl, List.mem_of_find?_eq_some hfind, hok⟩

theorem okFor_key (s : Sig) (k : KeyId) (d : Digest) (h : s.okFor k d = true) : s.key = k := by
  simp only [Sig.okFor, Bool.and_eq_true, beq_iff_eq] at h
  exact h.1.1

/-- **Completeness for key-disjoint principals** (second half of C05, with the Git signature): when
the principals of a rule share no keys, the rule is satisfied whenever at least `threshold` of them
signed — the Git object or the envelope — with one of their keys.  For every rule, every order of
principals and keys, every Git signature and every envelope that carries at least one signature. -/
theorem C05_complete (v : Verifier) (g : Option Sig) (gd : Digest) (env : Option Envelope)
    (hx : v.exhaustive = false) (hd : DisjointKeys v.principals)
    (hne : ∀ e, env = some e → e.sigs ≠ []) (hth : 1 ≤ v.threshold)
    (hcount : v.threshold ≤
      ((v.principals.filter (fun P => gitSignedB g gd P || envSignedB env P)).length : Int)) :
    ∃ S, v.verify g gd env = .ok S := by
  have hnonempty : v.principals ≠ [] := by
    intro h0
    rw [h0] at hcount
    simp at hcount
    omega
  have hnodup : v.principals.Nodup := nodup_of_map_nodup _ _ hd.1
  have hguard : (decide (v.threshold < 1) || v.principals.isEmpty) = false := by
    have h1 : ¬ v.threshold < 1 := by omega
    have h2 : v.principals.isEmpty = false := by
      cases hp : v.principals with
      | nil => exact absurd hp hnonempty
      | cons _ _ => rfl
    simp [h1, h2]
  -- counting: a list of principals whose ids all occur in `S` is no longer than `S`
  have count_le : ∀ (pred : Principal → Bool) (S : List PId),
      (∀ P ∈ v.principals, pred P = true → P.id ∈ S) →
      ((v.principals.filter pred).length : Int) ≤ (S.length : Int) := by
    intro pred S hsub
    have hsub' : ∀ x ∈ (v.principals.filter pred).map (·.id), x ∈ S := by
      intro x hx'
      simp only [List.mem_map, List.mem_filter] at hx'
      obtain ⟨P, ⟨hP, hs⟩, rfl⟩ := hx'
      exact hsub P hP hs
    have hnd : ((v.principals.filter pred).map (·.id)).Nodup := by
      have : ((v.principals.filter pred).map (·.id)).Sublist (v.principals.map (·.id)) :=
        (List.filter_sublist).map _
      exact this.nodup hd.1
    have := nodup_subset_length _ _ hnd hsub'
    simp only [List.length_map] at this
    exact_mod_cast this
  unfold Verifier.verify
  simp only [hguard, Bool.false_eq_true, if_false]
  cases hg0 : gitPhase v.principals g gd with
  | none =>
    have hnog := gitPhase_none v.principals g gd hg0
    simp only [Option.isSome_none, Bool.and_false, Bool.false_eq_true, if_false]
    cases env with
    | none =>
      exfalso
      have : ((v.principals.filter (fun P => gitSignedB g gd P || envSignedB none P)).length : Int) ≤ (([] : List PId).length : Int) :=
        count_le _ [] (by
          intro P hP hpred
          simp [hnog P hP, envSignedB] at hpred)
      have h0 : (([] : List PId).length : Int) = 0 := rfl
      omega
    | some e =>
      obtain ⟨st, hst, hinv, _⟩ := envPhase_compG e (hne e rfl) v.principals hd none (by simp) v.principals []
        (by simp) (fun Q hQ => hQ) (by simpa using hnodup) ([], []) ⟨by simp, by simp, by simp⟩
      simp only [List.nil_append] at hinv
      simp only [hst]
      have hlen := count_le (fun P => gitSignedB g gd P || envSignedB (some e) P) st.1 (by
        intro P hP hpred
        simp only [hnog P hP, Bool.false_or, envSignedB] at hpred
        exact hinv.cred P hP ((signedB_iff e P).mp hpred))
      unfold Verifier.finish
      have hfin : (v.exhaustive || decide ((st.1.length : Int) ≥ v.threshold)) = true := by
        have : (st.1.length : Int) ≥ v.threshold := by omega
        simp [this]
      simp only [hfin, if_true]
      exact ⟨st.1, rfl⟩
  | some pk =>
    obtain ⟨p, k⟩ := pk
    obtain ⟨s, Q, hgs, hQ, hQid, hkQ, hok⟩ := gitPhase_some' v.principals g gd p k hg0
    -- only Q can have signed the Git object
    have honly : ∀ P ∈ v.principals, gitSignedB g gd P = true → P = Q := by
      intro P hP hsig
      rw [hgs] at hsig
      simp only [gitSignedB] at hsig
      obtain ⟨k', hk1, hk2⟩ := List.any_eq_true.mp hsig
      have h1 := okFor_key s k' gd hk2
      have h2 := okFor_key s k gd hok
      exact hd.2 P hP Q hQ k' hk1 (by rw [← h1, h2]; exact hkQ)
    simp only [Option.isSome_some, Bool.and_true]
    by_cases hone : v.threshold = 1
    · simp [hx, hone]
    · have hcond : (!v.exhaustive && v.threshold == 1) = false := by simp [hone]
      simp only [hcond, Bool.false_eq_true, if_false]
      cases env with
      | none =>
        exfalso
        have : ((v.principals.filter (fun P => gitSignedB g gd P || envSignedB none P)).length : Int) ≤ (([Q.id] : List PId).length : Int) :=
          count_le _ [Q.id] (by
            intro P hP hpred
            simp only [envSignedB, Bool.or_false] at hpred
            rw [honly P hP hpred]; simp)
        have h0 : (([Q.id] : List PId).length : Int) = 1 := rfl
        omega
      | some e =>
        obtain ⟨st, hst, hinv, _⟩ := envPhase_compG e (hne e rfl) v.principals hd (some Q)
          (by intro Q' h; cases h; exact hQ) v.principals []
          (by simp) (fun Q hQ => hQ) (by simpa using hnodup) ([p], [k])
          ⟨by intro k' hk'; simp at hk'; subst hk'; exact Or.inr ⟨Q, rfl, hkQ⟩, by simp,
           by intro Q' h; cases h; simp [hQid]⟩
        simp only [List.nil_append] at hinv
        simp only [hst]
        have hlen := count_le (fun P => gitSignedB g gd P || envSignedB (some e) P) st.1 (by
          intro P hP hpred
          simp only [Bool.or_eq_true, envSignedB] at hpred
          rcases hpred with h | h
          · rw [honly P hP h]; exact hinv.gcred Q rfl
          · exact hinv.cred P hP ((signedB_iff e P).mp h))
        unfold Verifier.finish
        have hfin : (v.exhaustive || decide ((st.1.length : Int) ≥ v.threshold)) = true := by
          have : (st.1.length : Int) ≥ v.threshold := by omega
          simp [this]
        simp only [hfin, if_true]
        exact ⟨st.1, rfl⟩

theorem filter_length_mono {α} (l : List α) (p q : α → Bool) (h : ∀ a, p a = true → q a = true) :
    (l.filter p).length ≤ (l.filter q).length := by
  induction l with
  | nil => simp
  | cons a l ih =>
    simp only [List.filter_cons]
    cases hp : p a with
    | true => simp only [h a hp, if_true, List.length_cons]; omega
    | false =>
      cases hq : q a with
      | true => simp only [if_true, List.length_cons, Bool.false_eq_true, if_false]; omega
      | false => simpa using ih

/-- **A signature on the Git object never hurts** (key-disjoint principals): if a rule is satisfied
by the envelope alone, it is satisfied whatever signature the Git object carries — by a principal
of the rule, by an outsider, over other content, or none.  This is the step from "the mergeability
check needs no further signature" to "the recorded merge verifies whoever records it" (C19) at the
level of one rule. -/
theorem C05_git_signature_monotone (v : Verifier) (gd : Digest) (env : Option Envelope) (S : List PId)
    (hx : v.exhaustive = false) (hd : DisjointKeys v.principals)
    (hne : ∀ e, env = some e → e.sigs ≠ [])
    (h : v.verify none gd env = .ok S) (g : Option Sig) :
    ∃ S', v.verify g gd env = .ok S' := by
  obtain ⟨hth, _, hlen, hnd, f, pg, hcred, _⟩ := C05_sound v none gd env S hx h
  -- every credited principal signed the envelope
  have hsub : ∀ x ∈ S, x ∈ (v.principals.filter (envSignedB env)).map (·.id) := by
    intro p hp
    obtain ⟨P, hP, hid, hk, hval⟩ := hcred p hp
    rcases hval with ⟨_, s, hs, _⟩ | ⟨e, s, he, hs, hok⟩
    · cases hs
    · refine List.mem_map.mpr ⟨P, List.mem_filter.mpr ⟨hP, ?_⟩, hid⟩
      subst he
      simp only [envSignedB]
      exact (signedB_iff e P).mpr ⟨f p, hk, s, hs, hok⟩
  have h1 := nodup_subset_length _ _ hnd hsub
  simp only [List.length_map] at h1
  have h2 := filter_length_mono v.principals (envSignedB env)
    (fun P => gitSignedB g gd P || envSignedB env P) (fun a ha => by simp [ha])
  exact C05_complete v g gd env hx hd hne hth (by omega)

/-- executable form of `DisjointKeys` -/
def disjointKeysB (ps : List Principal) : Bool :=
  decide (ps.map (·.id)).Nodup &&
  ps.all (fun P => ps.all (fun Q => P == Q || P.keys.all (fun k => !Q.keys.contains k)))

theorem disjointKeys_of_B (ps : List Principal) (h : disjointKeysB ps = true) : DisjointKeys ps := by
  simp only [disjointKeysB, Bool.and_eq_true, decide_eq_true_eq, List.all_eq_true, Bool.or_eq_true,
    beq_iff_eq, Bool.not_eq_true'] at h
  refine ⟨h.1, ?_⟩
  intro P hP Q hQ k hk1 hk2
  rcases h.2 P hP Q hQ with h1 | h1
  · exact h1
  · have := h1 k hk1
    simp [hk2] at this

/-- non-vacuity: threshold 2, one principal signs the Git object, the other the envelope (with its
second key); hypotheses met, the rule is satisfied.  With a shared key the count is not exact: both
principals "signed" with key 10, the rule is not satisfied — the hypothesis cannot be dropped. -/
example :
    let v : Verifier := ⟨0, [⟨1, [10]⟩, ⟨2, [12, 13]⟩], 2, false⟩
    let e : Envelope := ⟨7, [⟨13, 7, none⟩]⟩
    disjointKeysB v.principals = true ∧
    (v.principals.filter (fun P => gitSignedB (some ⟨10, 5, none⟩) 5 P || envSignedB (some e) P)).length = 2 ∧
    v.verify (some ⟨10, 5, none⟩) 5 (some e) = .ok [1, 2] := by decide

example :
    let v : Verifier := ⟨0, [⟨1, [10]⟩, ⟨2, [10]⟩], 2, false⟩
    let e : Envelope := ⟨7, [⟨10, 7, none⟩]⟩
    disjointKeysB v.principals = false ∧
    (v.principals.filter (fun P => gitSignedB none 5 P || envSignedB (some e) P)).length = 2 ∧
    v.verify none 5 (some e) = .error (.unmet [1]) := by decide

end Gittuf
