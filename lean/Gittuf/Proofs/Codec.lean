/-
Helper lemmas for C14 (codec of RSL entries).
-/
import Gittuf.Spec.C14
namespace Gittuf.Codec

/-! ## the table-driven state machine -/

def specKeys (spec : List FieldSpec) : List Bytes := spec.map (·.1)

theorem lookupKey_none (spec : List FieldSpec) (key : Bytes) (h : lookupKey spec key = none) :
    (specKeys spec).contains key = false := by
  induction spec with
  | nil => simp [specKeys]
  | cons a rest ih =>
    obtain ⟨k, kind⟩ := a
    simp only [lookupKey] at h
    split at h
    · cases h
    · rename_i hne
      split at h
      · rename_i hl
        have := ih hl
        simp only [specKeys, List.map_cons, List.contains_cons, Bool.or_eq_false_iff] at this ⊢
        exact ⟨by simpa using hne, this⟩
      · cases h

theorem lookupKey_some (spec : List FieldSpec) (key : Bytes) (i : Nat) (kd : VKind)
    (h : lookupKey spec key = some (i, kd)) :
    (specKeys spec).contains key = true ∧
      (specKeys spec).drop i = key :: (specKeys spec).drop (i + 1) := by
  induction spec generalizing i with
  | nil => simp [lookupKey] at h
  | cons a rest ih =>
    obtain ⟨k, kind⟩ := a
    simp only [lookupKey] at h
    split at h
    · rename_i heq
      cases h
      simp [specKeys, heq]
    · rename_i hne
      split at h
      · cases h
      · rename_i j kd' hl
        cases h
        obtain ⟨h1, h2⟩ := ih j hl
        refine ⟨?_, ?_⟩
        · simp only [specKeys, List.map_cons, List.contains_cons, Bool.or_eq_true]
          right; exact h1
        · simpa [specKeys] using h2

/-- What an accepting run of the machine says about the text: every line splits, and the known
fields of the lines, in text order, are exactly the next expected keys with the accepted values. -/
theorem seqLoop_fields (spec : List FieldSpec) (ls : List Bytes) :
    ∀ (vals vals' : List Bytes), seqLoop spec vals ls = .ok vals' →
      allSplit ls = true ∧ ∃ new, vals' = vals ++ new ∧
        (knownFields (specKeys spec) ls).map Prod.snd = new ∧
        (knownFields (specKeys spec) ls).map Prod.fst = ((specKeys spec).drop vals.length).take new.length := by
  induction ls with
  | nil =>
    intro vals vals' h
    simp only [seqLoop] at h
    cases h
    exact ⟨by simp [allSplit], [], by simp, by simp [knownFields], by simp [knownFields]⟩
  | cons l ls ih =>
    intro vals vals' h
    simp only [seqLoop] at h
    split at h
    · cases h
    · rename_i v1 hstep
      obtain ⟨hall, new, hv, hsnd, hfst⟩ := ih v1 vals' h
      unfold seqStep at hstep
      split at hstep
      · cases hstep
      · rename_i key value hsf
        have hall' : allSplit (l :: ls) = true := by
          simp only [allSplit, List.all_cons, Bool.and_eq_true] at hall ⊢
          exact ⟨by simp [hsf], hall⟩
        split at hstep
        · -- unknown key: ignored
          rename_i hl
          cases hstep
          have hc := lookupKey_none _ _ hl
          have hm : key ∉ specKeys spec := by simpa using hc
          refine ⟨hall', new, hv, ?_, ?_⟩
          · simpa [knownFields, hsf, List.filter_cons, hm] using hsnd
          · simpa [knownFields, hsf, List.filter_cons, hm] using hfst
        · rename_i i kind hl
          obtain ⟨hc, hdrop⟩ := lookupKey_some _ _ _ _ hl
          have hm : key ∈ specKeys spec := by simpa using hc
          split at hstep
          · cases hstep
          · rename_i hi
            have hi' : i = vals.length := by simpa using hi
            split at hstep
            · cases hstep
            · cases hstep
              refine ⟨hall', value :: new, by simp [hv], ?_, ?_⟩
              · simpa [knownFields, hsf, List.filter_cons, hm] using hsnd
              · have hfst' : List.map Prod.fst (knownFields (specKeys spec) ls) =
                    List.take new.length (List.drop (i + 1) (specKeys spec)) := by
                  simpa [hi'] using hfst
                simp only [knownFields, List.filterMap_cons, hsf, List.filter_cons, hc, if_true,
                  List.map_cons, List.length_cons]
                rw [← hi', hdrop, List.take_succ_cons]
                congr 1


theorem entryBody_ok (lines : List Bytes) (hdr : Bytes) (body : List Bytes)
    (h : entryBody lines hdr = .ok body) :
    body = lines.drop 2 ∧ lines.head? = some hdr := by
  unfold entryBody at h
  split at h
  · split at h
    · cases h
    · rename_i hc
      cases h
      simp only [not_or, Decidable.not_not] at hc
      obtain ⟨h1, _⟩ := hc
      subst h1
      exact ⟨rfl, rfl⟩
  · cases h

theorem list_of_maps {α β} (fs : List (α × β)) (ks : List α) (vs : List β)
    (h1 : fs.map Prod.fst = ks) (h2 : fs.map Prod.snd = vs) : fs = ks.zip vs := by
  subst h1 h2
  induction fs with
  | nil => rfl
  | cons a rest ih =>
    simp only [List.map_cons, List.zip_cons_cons]
    rw [← ih]

theorem parseRefLines_fields (lines : List Bytes) (e : RefEntry)
    (h : parseRefLines lines = .ok e) :
    allSplit (lines.drop 2) = true ∧ refFieldsB e (knownFields refKeys (lines.drop 2)) = true := by
  unfold parseRefLines at h
  split at h
  · cases h
  · rename_i body hb
    obtain ⟨hbody, _⟩ := entryBody_ok _ _ _ hb
    subst hbody
    split at h
    · cases h
    · rename_i vals hl
      obtain ⟨hall, new, hv, hsnd, hfst⟩ := seqLoop_fields _ _ _ _ hl
      simp only [List.nil_append] at hv
      subst hv
      refine ⟨hall, ?_⟩
      have hz := list_of_maps _ _ _ hfst hsnd
      have hk : specKeys refSpec = refKeys := rfl
      rw [hk] at hz
      unfold buildRef at h
      split at h
      · rename_i r t
        split at h
        · cases h
        · rename_i hh hh'
          cases h
          rw [hz]
          simp [refKeys, refFieldsB, hh']
      · rename_i r t n
        split at h
        · rename_i hh k hh' hk'
          cases h
          rw [hz]
          simp [refKeys, refFieldsB, hh', hk']
        · cases h
        · cases h
      · cases h

theorem parsePropLines_fields (lines : List Bytes) (e : PropEntry)
    (h : parsePropLines lines = .ok e) :
    allSplit (lines.drop 2) = true ∧ propFieldsB e (knownFields propKeys (lines.drop 2)) = true := by
  unfold parsePropLines at h
  split at h
  · cases h
  · rename_i body hb
    obtain ⟨hbody, _⟩ := entryBody_ok _ _ _ hb
    subst hbody
    split at h
    · cases h
    · rename_i vals hl
      obtain ⟨hall, new, hv, hsnd, hfst⟩ := seqLoop_fields _ _ _ _ hl
      simp only [List.nil_append] at hv
      subst hv
      refine ⟨hall, ?_⟩
      have hz := list_of_maps _ _ _ hfst hsnd
      have hk : specKeys propSpec = propKeys := rfl
      rw [hk] at hz
      unfold buildProp at h
      split at h
      · split at h
        · rename_i hh1 hh2
          cases h
          rw [hz]
          simp [propKeys, propFieldsB, hh1, hh2]
        · cases h
        · cases h
      · split at h
        · rename_i hh1 hh2 hh3
          cases h
          rw [hz]
          simp [propKeys, propFieldsB, hh1, hh2, hh3]
        · cases h
        · cases h
        · cases h
      · cases h

/-! ## strings -/

theorem hasPrefix_append (p x : Bytes) : hasPrefix p (p ++ x) = true := by
  induction p with
  | nil => simp [hasPrefix]
  | cons a p ih => simp [hasPrefix, ih]

theorem splitNL_noNL (l : Bytes) (h : (10 : UInt8) ∉ l) : splitNL l = [l] := by
  induction l with
  | nil => rfl
  | cons c rest ih =>
    simp only [List.mem_cons, not_or] at h
    have hc : c ≠ 10 := fun e => h.1 e.symm
    simp [splitNL, hc, ih h.2]

theorem splitNL_append (l r : Bytes) (h : (10 : UInt8) ∉ l) :
    splitNL (l ++ 10 :: r) = l :: splitNL r := by
  induction l with
  | nil => simp [splitNL]
  | cons c rest ih =>
    simp only [List.mem_cons, not_or] at h
    have hc : c ≠ 10 := fun e => h.1 e.symm
    simp [splitNL, hc, ih h.2]

theorem splitNL_joinNL (ls : List Bytes) (hne : ls ≠ []) (h : ∀ l ∈ ls, (10 : UInt8) ∉ l) :
    splitNL (joinNL ls) = ls := by
  induction ls with
  | nil => exact absurd rfl hne
  | cons l rest ih =>
    cases rest with
    | nil => simpa [joinNL] using splitNL_noNL l (h l (by simp))
    | cons l2 rest2 =>
      simp only [joinNL]
      rw [splitNL_append _ _ (h l (by simp))]
      rw [ih (by simp) (fun x hx => h x (by simp [hx]))]

theorem cut_append (k v : Bytes) (h : (58 : UInt8) ∉ k) : cut (k ++ 58 :: v) = some (k, v) := by
  induction k with
  | nil => simp [cut]
  | cons c rest ih =>
    simp only [List.mem_cons, not_or] at h
    have hc : c ≠ 58 := fun e => h.1 e.symm
    simp [cut, hc, ih h.2]

theorem stripN_id (f : Bytes → Nat) (n : Nat) (l : Bytes) (h : f l = 0) : stripN f n l = l := by
  cases n <;> simp [stripN, h]

theorem trimLeft_id (l : Bytes) (h : wsLen l = 0) : trimLeft l = l := stripN_id _ _ _ h
theorem trimRight_id (l : Bytes) (h : wsRevLen l.reverse = 0) : trimRight l = l := by
  simp [trimRight, stripN_id _ _ _ h]
theorem trimSpace_id (l : Bytes) (h1 : wsLen l = 0) (h2 : wsRevLen l.reverse = 0) : trimSpace l = l := by
  simp [trimSpace, trimLeft_id l h1, trimRight_id l h2]

/-- white space at the end is judged on the last three bytes only; a blank in front of a
non-empty value that has no trailing white space does not create one -/
theorem wsRevLen_append (r q : Bytes) (hne : r ≠ []) (h : wsRevLen r = 0) :
    wsRevLen (r ++ 32 :: q) = 0 := by
  match r, hne with
  | [a], _ =>
    simp [wsRevLen, ws1, ws2, ws3] at h ⊢
    cases q <;> simp_all
  | [a, b], _ =>
    simp [wsRevLen, ws1, ws2, ws3] at h ⊢
    simp_all
  | a :: b :: c :: r', _ =>
    simpa [wsRevLen] using h

theorem wsLen_append (k x : Bytes) (h3 : 3 ≤ k.length) : wsLen (k ++ x) = wsLen k := by
  simp [wsLen, List.take_append_of_le_length (Nat.le_trans (by decide : 1 ≤ 3) h3),
    List.take_append_of_le_length (Nat.le_trans (by decide : 2 ≤ 3) h3),
    List.take_append_of_le_length h3]

theorem wsRevLen_colon (q : Bytes) : wsRevLen (58 :: q) = 0 := by
  match q with
  | [] => decide
  | [a] => simp [wsRevLen, ws1, ws2, ws3]
  | a :: b :: q' => simp [wsRevLen, ws1, ws2, ws3]

theorem wsLen_space (v : Bytes) : wsLen (32 :: v) = 1 := by
  simp [wsLen, ws1]

theorem trimSpace_space (v : Bytes) (hv1 : wsLen v = 0) (hv2 : wsRevLen v.reverse = 0) :
    trimSpace (32 :: v) = v := by
  have : trimLeft (32 :: v) = v := by
    simp [trimLeft, stripN, wsLen_space, stripN_id _ _ _ hv1]
  simp [trimSpace, this, trimRight_id v hv2]

theorem splitField_fieldLine (k v : Bytes) (hk3 : 3 ≤ k.length) (hkl : wsLen k = 0)
    (hkc : (58 : UInt8) ∉ k) (hkt : trimSpace k = k)
    (hv1 : wsLen v = 0) (hv2 : wsRevLen v.reverse = 0) :
    splitField (fieldLine k v) = some (k, v) := by
  have hl : trimLeft (fieldLine k v) = fieldLine k v := by
    apply trimLeft_id
    simp only [fieldLine, List.append_assoc]
    rw [wsLen_append _ _ hk3]; exact hkl
  by_cases hv : v = []
  · subst hv
    have hr : trimRight (fieldLine k []) = k ++ [58] := by
      simp only [trimRight, fieldLine, colonSp, List.append_nil, List.reverse_append, List.reverse_cons,
        List.reverse_nil, List.nil_append, List.cons_append, List.length_append, List.length_cons,
        List.length_nil]
      have : wsRevLen (32 :: 58 :: k.reverse) = 1 := by simp [wsRevLen, ws1]
      simp [stripN, this, wsRevLen_colon k.reverse]
    unfold splitField
    simp only [trimSpace, hl, hr]
    rw [show k ++ [58] = k ++ 58 :: [] from rfl, cut_append _ _ hkc]
    simp only [Option.some.injEq, Prod.mk.injEq]
    exact ⟨hkt, by decide⟩
  · have hr : trimRight (fieldLine k v) = fieldLine k v := by
      apply trimRight_id
      simp only [fieldLine, colonSp, List.reverse_append, List.reverse_cons,
        List.nil_append, List.cons_append, List.append_assoc]
      exact wsRevLen_append _ _ (by simpa using hv) hv2
    unfold splitField
    simp only [trimSpace, hl, hr]
    rw [show fieldLine k v = k ++ 58 :: (32 :: v) by simp [fieldLine, colonSp], cut_append _ _ hkc]
    simp only [Option.some.injEq, Prod.mk.injEq]
    exact ⟨hkt, trimSpace_space v hv1 hv2⟩

/-! ## plain bytes: never part of a white-space rune's first or last byte -/

def specialB : List UInt8 := [9, 10, 11, 12, 13, 32, 0xC2, 0xE1, 0xE2, 0xE3, 0x85, 0xA0,
  0x80, 0x81, 0x82, 0x83, 0x84, 0x86, 0x87, 0x88, 0x89, 0x8A, 0xA8, 0xA9, 0xAF, 0x9F]

def Plain (v : Bytes) : Prop := ∀ c ∈ v, c ∉ specialB

theorem wsLen_plain_head (a : UInt8) (l : Bytes) (h : a ∉ specialB) : wsLen (a :: l) = 0 := by
  simp [specialB] at h
  match l with
  | [] => simp [wsLen, ws1, ws2, ws3, h]
  | [b] => simp [wsLen, ws1, ws2, ws3, h]
  | b :: c :: l' => simp [wsLen, ws1, ws2, ws3, h]

theorem wsRevLen_plain_head (a : UInt8) (l : Bytes) (h : a ∉ specialB) : wsRevLen (a :: l) = 0 := by
  simp [specialB] at h
  match l with
  | [] => simp [wsRevLen, ws1, ws2, ws3, h]
  | [b] => simp [wsRevLen, ws1, ws2, ws3, h]
  | b :: c :: l' => simp [wsRevLen, ws1, ws2, ws3, h]

theorem clean_of_plain (v : Bytes) (h : Plain v) : CleanValue v := by
  refine ⟨fun h10 => h 10 h10 (by decide), ?_, ?_⟩
  · match v, h with
    | [], _ => decide
    | a :: l, h => exact wsLen_plain_head a l (h a (by simp))
  · match hv : v.reverse with
    | [] => decide
    | a :: l =>
      apply wsRevLen_plain_head
      apply h
      have : a ∈ v.reverse := by simp [hv]
      simpa using this

/-! ## hex -/

theorem hexVal_hexChar : ∀ d : Fin 16, hexVal (hexChar d) = some d := by decide
theorem hexChar_plain : ∀ d : Fin 16, hexChar d ∉ specialB := by decide

theorem hexDecode_hexEncode (h : Hash) : hexDecode (hexEncode h) = some h := by
  induction h with
  | nil => rfl
  | cons d rest ih => simp only [hexEncode, List.map_cons, hexDecode, hexVal_hexChar] ; simp only [hexEncode] at ih; simp [ih]

theorem hashOf_hexEncode (h : Hash) (hw : HashWF h) : hashOf (hexEncode h) = .ok h := by
  unfold hashOf
  have hl : (hexEncode h).length = h.length := by simp [hexEncode]
  rw [hl, hexDecode_hexEncode]
  unfold HashWF at hw
  rcases hw with hw | hw <;> simp [hw]

theorem hexEncode_plain (h : Hash) : Plain (hexEncode h) := by
  intro c hc
  simp only [hexEncode, List.mem_map] at hc
  obtain ⟨d, _, rfl⟩ := hc
  exact hexChar_plain d

/-! ## numbers -/

theorem digitVal_digitChar : ∀ d : Fin 10, digitVal (digitChar d.val) = some d.val := by decide
theorem digitChar_plain (d : Nat) : digitChar d ∉ specialB := by
  unfold digitChar
  split <;> decide

theorem puGo_append (xs ys : Bytes) : ∀ a, puGo a (xs ++ ys) =
    (match puGo a xs with | .ok a' => puGo a' ys | .error e => .error e) := by
  induction xs with
  | nil => intro a; simp [puGo]
  | cons c rest ih =>
    intro a
    simp only [List.cons_append, puGo]
    split
    · rfl
    · split
      · rfl
      · exact ih _

theorem puGo_single (a d : Nat) (hd : d < 10) (h : a * 10 + d < two64) :
    puGo a [digitChar d] = .ok (a * 10 + d) := by
  have := digitVal_digitChar ⟨d, hd⟩
  simp only at this
  simp [puGo, this, Nat.not_le.mpr h]

theorem puGo_render : ∀ fuel n, n < fuel → n < two64 → puGo 0 (renderNatF fuel n) = .ok n := by
  intro fuel
  induction fuel with
  | zero => intro n h; omega
  | succ f ih =>
    intro n hn h64
    unfold renderNatF
    split
    · rename_i h10
      have := puGo_single 0 n h10 (by simpa using h64)
      simpa using this
    · rename_i h10
      rw [puGo_append, ih (n / 10) (by omega) (by unfold two64 at *; omega)]
      have := puGo_single (n / 10) (n % 10) (by omega) (by unfold two64 at *; omega)
      simp only [this]
      congr 1
      omega

theorem renderNatF_ne_nil (f n : Nat) : renderNatF (f + 1) n ≠ [] := by
  unfold renderNatF
  split <;> simp

theorem renderNatF_plain : ∀ fuel n, Plain (renderNatF fuel n) := by
  intro fuel
  induction fuel with
  | zero => intro n c hc; simp [renderNatF] at hc
  | succ f ih =>
    intro n c hc
    unfold renderNatF at hc
    split at hc
    · simp only [List.mem_singleton] at hc; subst hc; exact digitChar_plain _
    · simp only [List.mem_append, List.mem_singleton] at hc
      rcases hc with hc | hc
      · exact ih _ c hc
      · subst hc; exact digitChar_plain _

theorem parseUint_renderNat (n : Nat) (h : n < two64) : parseUint (renderNat n) = .ok n := by
  unfold parseUint renderNat
  simp [renderNatF_ne_nil, puGo_render (n + 1) n (by omega) h]

/-- a field line of a clean value splits back into key and value (all keys of the format) -/
theorem splitField_clean (k v : Bytes) (hk : k ∈ [kRef, kTarget, kNumber, kEntryID, kSkip, kUpRepo, kUpEntry])
    (hv : CleanValue v) : splitField (fieldLine k v) = some (k, v) := by
  have key : 3 ≤ k.length ∧ wsLen k = 0 ∧ (58 : UInt8) ∉ k ∧ trimSpace k = k := by
    simp only [List.mem_cons, List.not_mem_nil, or_false] at hk
    rcases hk with rfl | rfl | rfl | rfl | rfl | rfl | rfl <;> decide
  exact splitField_fieldLine k v key.1 key.2.1 key.2.2.1 key.2.2.2 hv.2.1 hv.2.2

theorem fieldLine_noNL (k v : Bytes) (hk : (10 : UInt8) ∉ k) (hv : (10 : UInt8) ∉ v) :
    (10 : UInt8) ∉ fieldLine k v := by
  simp [fieldLine, colonSp, hk, hv]

theorem numberLines_noNL (n : Nat) : ∀ l ∈ numberLines n, (10 : UInt8) ∉ l := by
  intro l hl
  unfold numberLines at hl
  split at hl
  · simp only [List.mem_singleton] at hl
    subst hl
    exact fieldLine_noNL _ _ (by decide) (clean_of_plain _ (renderNatF_plain _ _)).1
  · cases hl

/-- the optional trailing number line is accepted in state `expectNumber` -/
theorem seqLoop_number (spec : List FieldSpec) (vals : List Bytes) (n : Nat) (h64 : n < two64)
    (hl : lookupKey spec kNumber = some (vals.length, .num)) :
    seqLoop spec vals (numberLines n) =
      .ok (if n > 0 then vals ++ [renderNat n] else vals) := by
  unfold numberLines
  split
  · have hs := splitField_clean kNumber (renderNat n) (by simp) (clean_of_plain _ (renderNatF_plain _ _))
    simp [seqLoop, seqStep, hs, hl, validate, parseUint_renderNat n h64]
  · simp [seqLoop]

theorem parseRefLines_render (e : RefEntry) (hw : e.WF) : parseRefLines (renderRefLines e) = .ok e := by
  obtain ⟨hr, ht, hn⟩ := hw
  have h1 := splitField_clean kRef e.ref (by simp) hr
  have h2 := splitField_clean kTarget (hexEncode e.target) (by simp) (clean_of_plain _ (hexEncode_plain _))
  have hnum := seqLoop_number refSpec [e.ref, hexEncode e.target] e.number hn rfl
  have hb : entryBody (renderRefLines e) hdrRef =
      .ok ([fieldLine kRef e.ref, fieldLine kTarget (hexEncode e.target)] ++ numberLines e.number) := by
    simp [entryBody, renderRefLines, show trimSpace [] = ([] : Bytes) from by decide]
  have l1 : lookupKey refSpec kRef = some (0, .raw) := rfl
  have l2 : lookupKey refSpec kTarget = some (1, .hash) := rfl
  unfold parseRefLines
  rw [hb]
  simp only [List.cons_append, List.nil_append, seqLoop, seqStep, h1, h2, l1, l2, validate,
    hashOf_hexEncode _ ht, List.length_nil, List.length_cons, ne_eq, not_true_eq_false, if_false]
  rw [hnum]
  by_cases h0 : e.number > 0
  · simp [h0, buildRef, hashOf_hexEncode _ ht, parseUint_renderNat _ hn]
  · have : e.number = 0 := by omega
    simp [this, buildRef, hashOf_hexEncode _ ht]
    cases e; simp_all

theorem parsePropLines_render (e : PropEntry) (hw : e.WF) : parsePropLines (renderPropLines e) = .ok e := by
  obtain ⟨hr, ht, hu, hue, hn⟩ := hw
  have h1 := splitField_clean kRef e.ref (by simp) hr
  have h2 := splitField_clean kTarget (hexEncode e.target) (by simp) (clean_of_plain _ (hexEncode_plain _))
  have h3 := splitField_clean kUpRepo e.upstream (by simp) hu
  have h4 := splitField_clean kUpEntry (hexEncode e.upstreamId) (by simp) (clean_of_plain _ (hexEncode_plain _))
  have hnum := seqLoop_number propSpec [e.ref, hexEncode e.target, e.upstream, hexEncode e.upstreamId] e.number hn rfl
  have hb : entryBody (renderPropLines e) hdrProp =
      .ok ([fieldLine kRef e.ref, fieldLine kTarget (hexEncode e.target), fieldLine kUpRepo e.upstream,
        fieldLine kUpEntry (hexEncode e.upstreamId)] ++ numberLines e.number) := by
    simp [entryBody, renderPropLines, show trimSpace [] = ([] : Bytes) from by decide]
  have l1 : lookupKey propSpec kRef = some (0, .raw) := rfl
  have l2 : lookupKey propSpec kTarget = some (1, .hash) := rfl
  have l3 : lookupKey propSpec kUpRepo = some (2, .raw) := rfl
  have l4 : lookupKey propSpec kUpEntry = some (3, .hash) := rfl
  unfold parsePropLines
  rw [hb]
  simp only [List.cons_append, List.nil_append, seqLoop, seqStep, h1, h2, h3, h4, l1, l2, l3, l4, validate,
    hashOf_hexEncode _ ht, hashOf_hexEncode _ hue, List.length_nil, List.length_cons, ne_eq,
    not_true_eq_false, if_false]
  rw [hnum]
  by_cases h0 : e.number > 0
  · simp [h0, buildProp, hashOf_hexEncode _ ht, hashOf_hexEncode _ hue, parseUint_renderNat _ hn]
  · have : e.number = 0 := by omega
    simp [this, buildProp, hashOf_hexEncode _ ht, hashOf_hexEncode _ hue]
    cases e; simp_all

theorem joinNL_prefix (h : Bytes) (l : Bytes) (rest : List Bytes) :
    hasPrefix h (joinNL (h :: l :: rest)) = true := by
  simp only [joinNL]
  exact hasPrefix_append _ _

theorem renderRefLines_noNL (e : RefEntry) (hw : e.WF) : ∀ l ∈ renderRefLines e, (10 : UInt8) ∉ l := by
  intro l hl
  simp only [renderRefLines, List.cons_append, List.nil_append, List.mem_cons] at hl
  rcases hl with rfl | rfl | rfl | rfl | hl
  · decide
  · simp
  · exact fieldLine_noNL _ _ (by decide) hw.1.1
  · exact fieldLine_noNL _ _ (by decide) (clean_of_plain _ (hexEncode_plain _)).1
  · exact numberLines_noNL _ l hl

theorem renderPropLines_noNL (e : PropEntry) (hw : e.WF) : ∀ l ∈ renderPropLines e, (10 : UInt8) ∉ l := by
  intro l hl
  simp only [renderPropLines, List.cons_append, List.nil_append, List.mem_cons] at hl
  rcases hl with rfl | rfl | rfl | rfl | rfl | rfl | hl
  · decide
  · simp
  · exact fieldLine_noNL _ _ (by decide) hw.1.1
  · exact fieldLine_noNL _ _ (by decide) (clean_of_plain _ (hexEncode_plain _)).1
  · exact fieldLine_noNL _ _ (by decide) hw.2.2.1.1
  · exact fieldLine_noNL _ _ (by decide) (clean_of_plain _ (hexEncode_plain _)).1
  · exact numberLines_noNL _ l hl

theorem parse_renderRef (e : RefEntry) (hw : e.WF) : parse (renderRef e) = .ok (.ref e) := by
  have hs : splitNL (renderRef e) = renderRefLines e :=
    splitNL_joinNL _ (by simp [renderRefLines]) (renderRefLines_noNL e hw)
  have hp : hasPrefix hdrRef (renderRef e) = true := by
    simp only [renderRef, renderRefLines, List.cons_append]
    exact joinNL_prefix _ _ _
  unfold parse
  simp [hp, hs, parseRefLines_render e hw]

theorem hasPrefix_false_of_head (p t : Bytes) (a b : UInt8) (h : a ≠ b) :
    hasPrefix (a :: p) (b :: t) = false := by simp [hasPrefix, h]

theorem parse_renderProp (e : PropEntry) (hw : e.WF) : parse (renderProp e) = .ok (.prop e) := by
  have hs : splitNL (renderProp e) = renderPropLines e :=
    splitNL_joinNL _ (by simp [renderPropLines]) (renderPropLines_noNL e hw)
  have hp : hasPrefix hdrProp (renderProp e) = true := by
    simp only [renderProp, renderPropLines, List.cons_append]
    exact joinNL_prefix _ _ _
  have hp1 : hasPrefix hdrRef (renderProp e) = false := by
    simp [renderProp, renderPropLines, joinNL, hdrRef, hdrProp, hasPrefix]
  have hp2 : hasPrefix hdrAnn (renderProp e) = false := by
    simp [renderProp, renderPropLines, joinNL, hdrAnn, hdrProp, hasPrefix]
  unfold parse
  simp [hp, hp1, hp2, hs, parsePropLines_render e hw]

/-! ## annotations -/

/-- one iteration of the annotation loop, phrased with `splitField` -/
theorem annLoop_cons (s : AnnSt) (l : Bytes) (ls : List Bytes) (key value : Bytes)
    (hb : trimSpace l ≠ beginMessage) (hs : splitField l = some (key, value)) :
    annLoop s (l :: ls) =
      (if key = kEntryID then
        if s.st ≠ 0 then .error .invalid else
        match hashOf value with
        | .error e => .error e
        | .ok h => annLoop { s with ids := s.ids ++ [h] } ls
      else if key = kSkip then
        if s.st ≠ 0 ∨ s.ids.isEmpty then .error .invalid else
        if value = vTrue then annLoop { s with skip := true, st := 1 } ls
        else if value = vFalse then annLoop { s with skip := false, st := 1 } ls
        else .error .invalid
      else if key = kNumber then
        if s.st ≠ 1 then .error .invalid else
        match parseUint value with
        | .error e => .error e
        | .ok n => annLoop { s with number := n, st := 2 } ls
      else annLoop s ls) := by
  unfold splitField at hs
  split at hs
  · cases hs
  · rename_i k v hc
    cases hs
    rw [annLoop]
    simp only [hb, if_false, hc]
    rfl

theorem trimSpace_fieldLine_head (k v : Bytes) (a : UInt8) (k' : Bytes) (hk : k = a :: k') (hk3 : 3 ≤ k.length)
    (hkl : wsLen k = 0) (hv2 : wsRevLen v.reverse = 0) :
    ∃ x, trimSpace (fieldLine k v) = a :: x := by
  have hl : trimLeft (fieldLine k v) = fieldLine k v := by
    apply trimLeft_id
    simp only [fieldLine, List.append_assoc]
    rw [wsLen_append _ _ hk3]; exact hkl
  by_cases hv : v = []
  · subst hv
    have hr : trimRight (fieldLine k []) = k ++ [58] := by
      simp only [trimRight, fieldLine, colonSp, List.append_nil, List.reverse_append, List.reverse_cons,
        List.reverse_nil, List.nil_append, List.cons_append, List.length_append, List.length_cons,
        List.length_nil]
      have : wsRevLen (32 :: 58 :: k.reverse) = 1 := by simp [wsRevLen, ws1]
      simp [stripN, this, wsRevLen_colon k.reverse]
    exact ⟨k' ++ [58], by rw [trimSpace, hl, hr, hk]; rfl⟩
  · have hr : trimRight (fieldLine k v) = fieldLine k v := by
      apply trimRight_id
      simp only [fieldLine, colonSp, List.reverse_append, List.reverse_cons,
        List.nil_append, List.cons_append, List.append_assoc]
      exact wsRevLen_append _ _ (by simpa using hv) hv2
    exact ⟨k' ++ colonSp ++ v, by rw [trimSpace, hl, hr, hk]; simp [fieldLine]⟩

theorem fieldLine_not_begin (k v : Bytes) (hk : k ∈ [kNumber, kEntryID, kSkip]) (hv : CleanValue v) :
    trimSpace (fieldLine k v) ≠ beginMessage := by
  simp only [List.mem_cons, List.not_mem_nil, or_false] at hk
  rcases hk with rfl | rfl | rfl
  · obtain ⟨x, hx⟩ := trimSpace_fieldLine_head kNumber v 110 _ rfl (by decide) (by decide) hv.2.2
    rw [hx]; simp [beginMessage]
  · obtain ⟨x, hx⟩ := trimSpace_fieldLine_head kEntryID v 101 _ rfl (by decide) (by decide) hv.2.2
    rw [hx]; simp [beginMessage]
  · obtain ⟨x, hx⟩ := trimSpace_fieldLine_head kSkip v 115 _ rfl (by decide) (by decide) hv.2.2
    rw [hx]; simp [beginMessage]

/-- the entryID lines are accepted one by one in state `expectEntryID` -/
theorem annLoop_ids (ids : List Hash) (hw : ∀ h ∈ ids, HashWF h) (rest : List Bytes) :
    ∀ s : AnnSt, s.st = 0 →
      annLoop s (ids.map (fun h => fieldLine kEntryID (hexEncode h)) ++ rest) =
        annLoop { s with ids := s.ids ++ ids } rest := by
  induction ids with
  | nil => intro s _; simp
  | cons h ids ih =>
    intro s hs
    have hc := clean_of_plain _ (hexEncode_plain h)
    simp only [List.map_cons, List.cons_append]
    rw [annLoop_cons s _ _ kEntryID (hexEncode h) (fieldLine_not_begin _ _ (by simp) hc)
      (splitField_clean _ _ (by simp) hc)]
    simp only [if_true, hs, ne_eq, not_true_eq_false, if_false, hashOf_hexEncode h (hw h (by simp))]
    have := ih (fun x hx => hw x (by simp [hx])) { s with ids := s.ids ++ [h] } hs
    simp only [hs] at this
    rw [this]
    simp

/-- what follows the skip line: optional number, then (optional) the PEM lines, at which the loop stops -/
theorem annLoop_tail (s : AnnSt) (hs : s.st = 1) (n : Nat) (h64 : n < two64) (pem : List Bytes)
    (hp : pem = [] ∨ ∃ r, pem = beginMessage :: r) :
    ∃ s', annLoop s (numberLines n ++ pem) = .ok s' ∧ s'.ids = s.ids ∧ s'.skip = s.skip ∧
      s'.number = (if n > 0 then n else s.number) ∧ 1 ≤ s'.st := by
  have hstop : ∀ s : AnnSt, annLoop s pem = .ok s := by
    intro s
    rcases hp with rfl | ⟨r, rfl⟩
    · simp [annLoop]
    · rw [annLoop]; simp [show trimSpace beginMessage = beginMessage from by decide]
  unfold numberLines
  split
  · rename_i h0
    have hc : CleanValue (renderNat n) := clean_of_plain _ (renderNatF_plain (n + 1) n)
    simp only [List.cons_append, List.nil_append]
    rw [annLoop_cons s _ _ kNumber (renderNat n) (fieldLine_not_begin _ _ (by simp) hc)
      (splitField_clean _ _ (by simp) hc)]
    simp only [show ¬ (kNumber = kEntryID) from by decide, show ¬ (kNumber = kSkip) from by decide,
      if_false, if_true, hs, ne_eq, not_true_eq_false, parseUint_renderNat n h64, hstop]
    exact ⟨_, rfl, rfl, rfl, rfl, by simp⟩
  · rename_i h0
    simp only [List.nil_append, hstop]
    exact ⟨s, rfl, rfl, rfl, by simp, by omega⟩

def pemPart (m : Bytes) : List Bytes := if m.isEmpty then [] else pemLines m

theorem pemPart_shape (m : Bytes) : pemPart m = [] ∨ ∃ r, pemPart m = beginMessage :: r := by
  unfold pemPart
  split
  · exact Or.inl rfl
  · exact Or.inr ⟨_, rfl⟩

theorem parseAnnLines_render (e : AnnEntry) (hw : e.WF) :
    parseAnnLines (renderAnnLines e) e.message = .ok e := by
  obtain ⟨hne, hids, hn⟩ := hw
  have hlines : renderAnnLines e = hdrAnn :: [] :: (e.ids.map (fun h => fieldLine kEntryID (hexEncode h)) ++
      (fieldLine kSkip (if e.skip then vTrue else vFalse) :: (numberLines e.number ++ pemPart e.message))) := by
    simp [renderAnnLines, pemPart, List.append_assoc]
  have hb : entryBody (renderAnnLines e) hdrAnn = .ok (e.ids.map (fun h => fieldLine kEntryID (hexEncode h)) ++
      (fieldLine kSkip (if e.skip then vTrue else vFalse) :: (numberLines e.number ++ pemPart e.message))) := by
    rw [hlines]
    simp [entryBody, show trimSpace [] = ([] : Bytes) from by decide]
  have hsv : CleanValue (if e.skip then vTrue else vFalse) := by split <;> decide
  unfold parseAnnLines
  rw [hb]
  simp only
  rw [annLoop_ids e.ids hids _ _ rfl]
  rw [annLoop_cons _ _ _ kSkip _ (fieldLine_not_begin _ _ (by simp) hsv) (splitField_clean _ _ (by simp) hsv)]
  have hne' : e.ids.isEmpty = false := by cases h : e.ids <;> simp_all
  simp only [show ¬ (kSkip = kEntryID) from by decide, if_false, if_true, List.nil_append, hne',
    ne_eq, not_true_eq_false, false_or, Bool.false_eq_true]
  cases hsk : e.skip
  · simp only [Bool.false_eq_true, if_false, show ¬ (vFalse = vTrue) from by decide, if_true]
    obtain ⟨s', h1, h2, h3, h4, h5⟩ := annLoop_tail { st := 1, ids := e.ids, skip := false, number := 0 } rfl
      e.number hn (pemPart e.message) (pemPart_shape _)
    rw [h1]
    simp only [show ¬ (s'.st < 1) from by omega, if_false]
    cases e
    simp_all
  · simp only [if_true]
    obtain ⟨s', h1, h2, h3, h4, h5⟩ := annLoop_tail { st := 1, ids := e.ids, skip := true, number := 0 } rfl
      e.number hn (pemPart e.message) (pemPart_shape _)
    rw [h1]
    simp only [show ¬ (s'.st < 1) from by omega, if_false]
    cases e
    simp_all

theorem forall_uint8 (P : UInt8 → Prop) (h : ∀ n : Fin 256, P ⟨⟨n⟩⟩) : ∀ v : UInt8, P v := by
  intro v
  cases v with | ofBitVec bv => cases bv with | ofFin f => exact h f

set_option maxRecDepth 100000 in
theorem b64Char_ne_nl : ∀ v : UInt8, b64Char v ≠ 10 := by
  apply forall_uint8
  decide

theorem b64Enc_noNL : ∀ (n : Nat) (m : Bytes), m.length ≤ n → (10 : UInt8) ∉ b64Enc m := by
  intro n
  induction n using Nat.strongRecOn with
  | _ n ih =>
    intro m hm
    match m with
    | [] => simp [b64Enc]
    | [a] => simp [b64Enc, Ne.symm (b64Char_ne_nl _)]
    | [a, b] => simp [b64Enc, Ne.symm (b64Char_ne_nl _)]
    | a :: b :: c :: rest =>
      have := ih (n - 3) (by simp at hm; omega) rest (by simp at hm; omega)
      simp [b64Enc, Ne.symm (b64Char_ne_nl _), this]

theorem chunk64_sub : ∀ (f : Nat) (l : Bytes), ∀ x ∈ chunk64 f l, ∀ c ∈ x, c ∈ l := by
  intro f
  induction f with
  | zero => intro l x hx; simp [chunk64] at hx
  | succ f ih =>
    intro l x hx c hc
    unfold chunk64 at hx
    split at hx
    · cases hx
    · simp only [List.mem_cons] at hx
      rcases hx with rfl | hx
      · exact List.mem_of_mem_take hc
      · exact List.mem_of_mem_drop (ih _ x hx c hc)

theorem pemPart_noNL (m : Bytes) : ∀ l ∈ pemPart m, (10 : UInt8) ∉ l := by
  intro l hl
  unfold pemPart at hl
  split at hl
  · cases hl
  · simp only [pemLines, List.mem_cons, List.mem_append, List.not_mem_nil, or_false] at hl
    rcases hl with rfl | hl | rfl
    · decide
    · intro h10
      exact b64Enc_noNL _ m (Nat.le_refl _) (chunk64_sub _ _ l hl 10 h10)
    · decide


theorem renderAnnLines_noNL (e : AnnEntry) : ∀ l ∈ renderAnnLines e, (10 : UInt8) ∉ l := by
  intro l hl
  have hlines : renderAnnLines e = hdrAnn :: [] :: (e.ids.map (fun h => fieldLine kEntryID (hexEncode h)) ++
      (fieldLine kSkip (if e.skip then vTrue else vFalse) :: (numberLines e.number ++ pemPart e.message))) := by
    simp [renderAnnLines, pemPart, List.append_assoc]
  rw [hlines] at hl
  simp only [List.mem_cons, List.mem_append, List.mem_map] at hl
  rcases hl with rfl | rfl | ⟨h, _, rfl⟩ | rfl | hl | hl
  · decide
  · simp
  · exact fieldLine_noNL _ _ (by decide) (clean_of_plain _ (hexEncode_plain _)).1
  · exact fieldLine_noNL _ _ (by decide) (by split <;> decide)
  · exact numberLines_noNL _ l hl
  · exact pemPart_noNL _ l hl

theorem parse_renderAnn (e : AnnEntry) (hw : e.WF) (hpem : PemRoundTrip e) :
    parse (renderAnn e) = .ok (.ann e) := by
  have hs : splitNL (renderAnn e) = renderAnnLines e :=
    splitNL_joinNL _ (by simp [renderAnnLines]) (renderAnnLines_noNL e)
  have hshape : ∃ l rest, renderAnnLines e = hdrAnn :: l :: rest := ⟨[], _, by simp [renderAnnLines]; rfl⟩
  obtain ⟨l, rest, hsh⟩ := hshape
  have hp : hasPrefix hdrAnn (renderAnn e) = true := by
    rw [renderAnn, hsh]; exact joinNL_prefix _ _ _
  have hp1 : hasPrefix hdrRef (renderAnn e) = false := by
    rw [renderAnn, hsh]; simp [joinNL, hdrRef, hdrAnn, hasPrefix]
  unfold PemRoundTrip at hpem
  unfold parse
  simp [hp, hp1, hs, hpem, parseAnnLines_render e hw]

/-! ## accepted entries are well formed except for the trimmed values -/

theorem hexDecode_length : ∀ (v : Bytes) (h : Hash), hexDecode v = some h → h.length = v.length := by
  intro v
  induction v with
  | nil => intro h hh; simp [hexDecode] at hh; subst hh; rfl
  | cons c cs ih =>
    intro h hh
    simp only [hexDecode] at hh
    split at hh
    · cases hh
    · split at hh
      · cases hh
      · rename_i ds hds
        cases hh
        simp [ih ds hds]

theorem hashOf_wf (v : Bytes) (h : Hash) (hh : hashOf v = .ok h) : HashWF h := by
  unfold hashOf at hh
  split at hh
  · cases hh
  · rename_i hlen
    split at hh
    · cases hh
    · rename_i h' hd
      cases hh
      have := hexDecode_length _ _ hd
      unfold HashWF
      omega

theorem puGo_lt : ∀ (s : Bytes) (a n : Nat), a < two64 → puGo a s = .ok n → n < two64 := by
  intro s
  induction s with
  | nil => intro a n ha h; simp [puGo] at h; omega
  | cons c cs ih =>
    intro a n ha h
    simp only [puGo] at h
    split at h
    · cases h
    · split at h
      · cases h
      · rename_i hlt
        exact ih _ _ (by omega) h

theorem parseUint_lt (s : Bytes) (n : Nat) (h : parseUint s = .ok n) : n < two64 := by
  unfold parseUint at h
  split at h
  · cases h
  · exact puGo_lt s 0 n (by decide) h

theorem buildRef_wf (vals : List Bytes) (e : RefEntry) (h : buildRef vals = .ok e) :
    HashWF e.target ∧ e.number < two64 := by
  unfold buildRef at h
  split at h
  · split at h
    · cases h
    · rename_i hh; cases h; exact ⟨hashOf_wf _ _ hh, by simp [two64]⟩
  · split at h
    · rename_i _ _ hh hk; cases h; exact ⟨hashOf_wf _ _ hh, parseUint_lt _ _ hk⟩
    · cases h
    · cases h
  · cases h


theorem parse_canonical_ref (t : Bytes) (e : RefEntry) (h : parse t = .ok (.ref e))
    (hc : CleanValue e.ref) : parse (renderRef e) = .ok (.ref e) := by
  apply parse_renderRef
  unfold parse at h
  split at h
  · split at h
    · rename_i e' hp
      cases h
      unfold parseRefLines at hp
      split at hp
      · cases hp
      · split at hp
        · cases hp
        · exact ⟨hc, buildRef_wf _ _ hp⟩
    · cases h
  · split at h
    · split at h <;> cases h
    · split at h
      · split at h <;> cases h
      · cases h

end Gittuf.Codec
