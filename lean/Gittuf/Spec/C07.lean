/-
C07 — A violation is tolerated only if revoked and repaired as recovery requires.
Declarative restatement on the log as a list.
-/
import Gittuf.Spec.C01
namespace Gittuf
namespace World

def entryTree (W : World) (j : Nat) : Option Nat :=
  ((W.log[j]?).bind targetCommit).map W.treeOf

/-- reference entries (kind `ref`) recorded for `ref` with index in `[lo, hi]` -/
def refEntriesIn (W : World) (ref : String) (lo hi : Nat) : List Nat :=
  ((List.range (hi + 1)).drop lo).filter (fun j =>
    match W.log[j]? with | some e => e.kind == .ref && e.ref == ref | none => false)

/-- violating entry `j` is tolerated: it is marked skipped; there is a later entry `f` for the same
reference, not itself skipped, whose tree equals that of the latest unskipped entry before `j`;
and every entry for the reference strictly between `j` and `f` is marked skipped. -/
def tolerated (W : World) (ref : String) (last j : Nat) : Bool :=
  W.skipped j &&
  match W.latestFor ref j (unskipped := true) (refOnly := true) with
  | none => false
  | some lg =>
    (W.refEntriesIn ref (j + 1) last).any (fun f =>
      !W.skipped f && W.entryTree f == W.entryTree lg && (W.entryTree lg).isSome &&
      (W.refEntriesIn ref (j + 1) (f - 1)).all (fun k => W.skipped k))

/-- C07 on a concrete history and verified range -/
def c07Sound (W : World) (ref : String) (first last : Nat) : Bool :=
  (W.refEntriesIn ref first last).all (fun j => W.entryAuthorized j || W.tolerated ref last j)

end World
end Gittuf
