/-
C03 — Recording keeps the RSL an append-only, consecutively numbered single chain.
-/
import Gittuf.Model.Log
namespace Gittuf.RSL

/-- `ChainFrom s i l`: starting at commit `i` and following parents, every commit is in the
store, parses as an entry, has at most one parent (the last one none), and each link passes
the numbering rule; `l` lists the entries met, newest first. -/
inductive ChainFrom (s : Store) : Id → List LEntry → Prop where
  | root {i e} : s.get i = some ⟨[], some e⟩ → ChainFrom s i [⟨i, e⟩]
  | cons {i e p pe l} : s.get i = some ⟨[p], some e⟩ → ChainFrom s p (pe :: l) →
      linkOk e.number pe.e.number = true → ChainFrom s i (⟨i, e⟩ :: pe :: l)

/-- The log `l` (newest first) is what the RSL ref of `s` holds, as one well-formed chain. -/
def IsLog (s : Store) (l : List LEntry) : Prop :=
  match s.tip with
  | none => l = []
  | some t => ChainFrom s t l

/-- The RSL is a single well-formed chain. -/
def ChainInv (s : Store) : Prop := ∃ l, IsLog s l

/-- Numbering read globally, oldest first: `0* 1 2 3 …` (legacy unnumbered entries, then
consecutive numbers from 1). -/
def numberingOK : List Nat → Bool
  | [] => true
  | [_] => true       -- a lone entry: any number links to nothing
  | a :: b :: rest => linkOk b a && numberingOK (b :: rest)

/-- `0* 1 2 3 …` stated directly: some zeros, then 1, 2, …, m. -/
def IsZerosThenCount (ns : List Nat) : Prop :=
  ∃ k m, ns = List.replicate k 0 ++ (List.range m).map (· + 1)

/-- `b` is reachable from `a` through parent links (reflexive). -/
inductive Reach (s : Store) : Id → Id → Prop where
  | refl (a) : Reach s a a
  | step {a c p b} : s.get a = some c → p ∈ c.parents → Reach s p b → Reach s a b

/-- Append-only: no stored commit changes, and the old tip stays an ancestor of the new one. -/
def Extends (s s' : Store) : Prop :=
  (∀ i c, s.get i = some c → s'.get i = some c) ∧
  (∀ t, s.tip = some t → ∃ t', s'.tip = some t' ∧ Reach s' t' t)

/-! Bool versions over what an independent walker reads from the real repository:
per commit (newest first) its identity, parent count and, if the message is an entry, its number. -/

structure Seen where
  idx      : Nat            -- identity of the commit (creation order, assigned by the harness)
  nparents : Nat
  number   : Option Nat     -- `none`: message is not an entry
  deriving Repr, DecidableEq, Inhabited

def chainShapeB : List Seen → Bool
  | [] => true
  | [x] => x.nparents == 0 && (match x.number with | some n => decide (n ≤ 1) | none => false)
  | x :: y :: rest =>
    x.nparents == 1 &&
    (match x.number, y.number with
      | some n, some p => linkOk n p
      | _, _ => false) && chainShapeB (y :: rest)

/-- old chain is a suffix of the new one -/
def extendsB (old new : List Seen) : Bool :=
  decide (old.length ≤ new.length) && (new.drop (new.length - old.length)).map (·.idx) == old.map (·.idx)

end Gittuf.RSL
