/-
C10, layer (a) - "File rules see every changed path verbatim; odd path names are not exempt":
the part of the statement that concerns the path codec.  Path names containing spaces, quotes,
backslashes, control or non-ASCII characters are handled verbatim - never quoted, truncated or
skipped - when trees and change lists are read.

The specification is independent of git's text formats: it speaks about the lists of names only.
(The verification layer - every changed path that a rule matches is checked - is C10b.)
-/
import Gittuf.Model.Tree
namespace Gittuf.Tree
open Gittuf.Codec (Bytes)

/-- the set of paths as a duplicate-free list in Go's string order -/
def setOf (l : List Path) : List Path := l.foldl (fun acc p => insertSet p acc) []

/-- What `GetFilePathsChangedByCommit` has to return, given the leaf paths of the commit's tree
and the changed leaf paths against each parent (the documented behaviour of changes.go:12-16):
a root commit changes every path of its tree; a commit with one parent the paths that differ; a
merge commit nothing when its tree equals the last parent's tree, otherwise the union over all
parents. -/
def expectedChanged (files : List Path) (diffs : List (List Path)) : List Path :=
  match diffs with
  | [] => files
  | [d] => d
  | ds => match ds.getLast? with
    | some [] => []
    | _ => setOf ds.flatten

/-- verbatim: the reader returns exactly the names that are in the tree, byte for byte -/
def ChangedVerbatim (returned : List Bytes) (files : List Path) (diffs : List (List Path)) : Prop :=
  returned = expectedChanged files diffs

/-- `GetAllFilesInTree`: exactly one entry per leaf, under its verbatim path, with its blob id -/
def FilesVerbatim (returned : List (Bytes × Codec.Hash)) (t : Tree) : Prop :=
  returned = t.map (fun e => (e.path, e.id))

/-- `GetEntriesInTree`: the immediate entries with verbatim names, ids and kinds, in tree order -/
def EntriesVerbatim (returned : List (Bytes × Codec.Hash × Bool)) (es : List DirEntry) : Prop :=
  returned = es.map (fun e => (e.name, e.id, e.isTree))

def changedVerbatimB (returned : List Bytes) (files : List Path) (diffs : List (List Path)) : Bool :=
  returned == expectedChanged files diffs
def filesVerbatimB (returned : List (Bytes × Codec.Hash)) (t : Tree) : Bool :=
  returned == t.map (fun e => (e.path, e.id))
def entriesVerbatimB (returned : List (Bytes × Codec.Hash × Bool)) (es : List DirEntry) : Bool :=
  returned == es.map (fun e => (e.name, e.id, e.isTree))

/-- a name made of bytes that git prints verbatim and the line parsers do not split at -/
def safeByte (c : UInt8) : Bool := !mustQuote c && c != 32
/-- no space, tab, newline, quote, backslash, control byte, DEL or byte ≥ 0x80 (hence no leading
or trailing blanks either), and not empty -/
def safeName (p : Path) : Bool := !p.isEmpty && p.all safeByte

end Gittuf.Tree
