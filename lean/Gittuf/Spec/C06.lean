/-
C06 — Rules consulted for a path are exactly those of the documented delegation walk.

Declarative description of the documented walk (docs/design-document.md,
"Identifying Authorized Signers for Protected Namespaces", plus the terminating
flag of `IsLastTrustedInRuleFile`), independent of the work-list of Model/Walk:
no queue, no `seenRoles`; "entered" is a predicate on rule files, so a file is
entered at most once by construction.
-/
import Gittuf.Model.Walk
namespace Gittuf.Walk

/-- a delegated rule file exists under this name (the name "targets" is the primary
file, which is entered once, at the start, and never through a rule) -/
def Policy.delegated? (P : Policy) (n : String) : Option RuleFile :=
  if n = targetsName then none else P.files.lookup n

/-- a matching terminating rule that has a delegated rule file: it cuts off the
later rules of its own file (and nothing else) -/
def Cuts (P : Policy) (m : Rule → Bool) (r : Rule) : Prop :=
  m r = true ∧ r.terminating = true ∧ (P.delegated? r.name).isSome = true

/-- `r` is consulted once its file `F` is entered: it is not the trailing (allow)
rule and no earlier rule of `F` cuts it off. -/
def ConsultedIn (P : Policy) (m : Rule → Bool) (F : RuleFile) (r : Rule) : Prop :=
  ∃ pre post, F.rules = pre ++ r :: post ∧ post ≠ [] ∧ ∀ r' ∈ pre, ¬ Cuts P m r'

/-- the rule files entered by the documented walk -/
inductive Entered (P : Policy) (m : Rule → Bool) : RuleFile → Prop
  | primary {F} : P.primary = some F → Entered P m F
  | deleg {F r G} : Entered P m F → ConsultedIn P m F r → m r = true →
      P.delegated? r.name = some G → Entered P m G

/-- the rules consulted for the path (whose match relation is `m`) -/
def Consulted (P : Policy) (m : Rule → Bool) (F : RuleFile) (r : Rule) : Prop :=
  Entered P m F ∧ ConsultedIn P m F r

/-- the same without the terminating cut-off: every non-trailing rule of a file
reachable through matching rules (used for the statements that hold for graphs
with duplicated rule names, where "entered only once" makes the cut-off depend on
who came first). -/
inductive Reach (P : Policy) (m : Rule → Bool) : RuleFile → Prop
  | primary {F} : P.primary = some F → Reach P m F
  | deleg {F r G} : Reach P m F → r ∈ active F.rules → m r = true →
      P.delegated? r.name = some G → Reach P m G

/-- a verifier that carries exactly the name, trusted principal ids and threshold of `r` -/
def VerifierOf (v : WVerifier) (r : Rule) : Prop :=
  v.name = r.name ∧ v.pids = r.pids ∧ v.threshold = r.threshold

/-- a rule's *own* principals: its ids resolved in the definitions of its own file -/
def ownPrincipals (F : RuleFile) (r : Rule) : List (Option Principal) :=
  r.pids.map (PMap.get F.principals)

/-- No principal id is defined differently by two rule files of the policy. -/
def ConsistentPrincipals (P : Policy) : Prop :=
  ∀ F G, (P.primary = some F ∨ ∃ n, (n, F) ∈ P.files) → (P.primary = some G ∨ ∃ n, (n, G) ∈ P.files) →
    ∀ p ∈ F.principals, ∀ q ∈ G.principals, p.id = q.id → p = q

/-- Rule names are unique over all non-trailing rules of the primary file and of
the delegated files that can be looked up (what `preprocess` enforces, restricted
to the rules the walk can consult), counted per name. -/
def nameCount (n : String) (rules : List Rule) : Nat := (active rules).countP (fun r => r.name == n)

def UniqueRuleNames (P : Policy) : Prop :=
  ∀ n, (match P.primary with | none => 0 | some f => nameCount n f.rules) +
        unseenW (fun e => nameCount n e.2.rules) [targetsName] P.files ≤ 1

/-! ### Executable version: a plain recursive pre-order walk with a visited set,
used by the driver to judge what the implementation returned. -/

structure PreState where
  visited : List String
  out     : List (RuleFile × Rule)     -- consulted rules, pre-order

/-- pre-order: consult the rules of a file in order; a matching rule whose
delegated file has not been entered yet enters it immediately (depth first); if
that rule is terminating the rest of its own file is dropped. -/
def preWalk (m : Rule → Bool) (P : Policy) : Nat → RuleFile → List Rule → PreState → PreState
  | 0, _, _, st => st
  | fuel + 1, F, rules, st =>
    match rules with
    | d :: rest@(_ :: _) =>
      let st := { st with out := st.out ++ [(F, d)] }
      if m d then
        match (if st.visited.contains d.name then none else P.delegated? d.name) with
        | some G =>
          let st := preWalk m P fuel G G.rules { st with visited := d.name :: st.visited }
          if d.terminating then st else preWalk m P fuel F rest st
        | none => preWalk m P fuel F rest st
      else preWalk m P fuel F rest st
    | _ => st

def preFuel (P : Policy) : Nat :=
  (match P.primary with | none => 0 | some f => f.rules.length + 1) +
    ((P.files.map (fun e => e.2.rules.length + 1)).sum) + 1

/-- consulted rules in documented (pre-order) order -/
def consultedB (m : Rule → Bool) (P : Policy) : List (RuleFile × Rule) :=
  match P.primary with
  | none => []
  | some f => (preWalk m P (preFuel P) f f.rules { visited := [targetsName], out := [] }).out

/-- the verifiers the documented walk yields: one per consulted matching rule, with
the rule's own name, threshold and principals (resolved in its own file) -/
def expectedVerifiers (m : Rule → Bool) (P : Policy) : List WVerifier :=
  ((consultedB m P).filter (fun fr => m fr.2)).map
    (fun fr => { name := fr.2.name, pids := fr.2.pids, principals := ownPrincipals fr.1 fr.2, threshold := fr.2.threshold })

/-- Reach as a fixpoint computation (files reachable through matching active rules) -/
def reachB (m : Rule → Bool) (P : Policy) : List RuleFile :=
  match P.primary with
  | none => []
  | some f =>
    let step (fs : List RuleFile) : List RuleFile :=
      fs ++ (fs.flatMap (fun F => (active F.rules).filterMap (fun r =>
        if m r then P.delegated? r.name else none))).filter (fun G => !fs.contains G)
    let rec iter : Nat → List RuleFile → List RuleFile
      | 0, fs => fs
      | k + 1, fs => iter k (step fs).eraseDups
    iter (P.files.length + 1) [f]

def uniqueRuleNamesB (P : Policy) : Bool :=
  let rules := (match P.primary with | none => [] | some f => active f.rules) ++
    ((P.files.filter (fun e => e.1 != targetsName)).flatMap (fun e => active e.2.rules))
  nodupStr (rules.map (·.name))

end Gittuf.Walk
