/-
C20 — Hook scripts stay inside the sandbox API and stop within their timeout.
The property restated declaratively, plus Bool judges the driver applies to what the
REAL code did. Core only.
-/
import Gittuf.Model.Sandbox
namespace Gittuf.Sandbox

/-! ## Reachability, declaratively (no algorithm) -/

/-- `i` can be reached from a script-visible root by following edges. -/
inductive Reachable (g : Graph) : Nat → Prop
  | root {i} : i ∈ g.roots → Reachable g i
  | step {i j l} : Reachable g i → (⟨i, l, j⟩ : Edge) ∈ g.edges → Reachable g j

/-- Every value reachable from the sandbox globals is inert data, a table, an allow-listed
library function or a registered API. -/
def Safe (g : Graph) : Prop :=
  ∀ i, Reachable g i → ∃ n, g.node? i = some n ∧ allowedNode n = true

/-! ## What may never be reachable by name (property statement + luasandbox.go:121-160) -/

def forbiddenGlobals : List String :=
  ["os", "io", "debug", "package", "channel",                       -- filesystem, processes, environment, registry
   "require", "module", "dofile", "load", "loadstring", "loadfile",  -- code loading
   "getmetatable", "setmetatable",                                   -- metatable primitives
   "rawget", "rawset", "rawequal", "rawlen",                         -- raw access
   "collectgarbage", "_G"]                                           -- disabled by gittuf itself

def forbiddenMembers : List (String × String) :=
  [("string", "dump"), ("string", "rep"), ("math", "randomseed")]

def forbiddenPath : List String → Bool
  | [] => false
  | [a] => forbiddenGlobals.contains a
  | a :: b :: _ => forbiddenGlobals.contains a || forbiddenMembers.contains (a, b)

/-- library module tables that must not change -/
def moduleTables : List String := ["string", "math", "table", "coroutine"]

/-! ## Judges on the implementation's observable -/

/-- probe script: exit code 7 = the value named by `path` was reached -/
def probeOk (path : List String) (cls : String) (code : Int) : Bool :=
  cls == "ok" && (code == 0 || (code == 7 && !forbiddenPath path))

/-- write script: exit code 7 = the table changed. A module table must never change; in the
globals table (which is also the base library's table) a pre-existing library / API entry
(function or module table; `preExisting`) must not change. -/
def writeOk (table : String) (preExisting : Bool) (cls : String) (code : Int) : Bool :=
  cls == "ok" && (code == 0 ||
    (code == 7 && !moduleTables.contains table && !(table == "_G" && preExisting)))

/-- a script whose last result is not a number is treated as failed (and nothing panics) -/
def retOk (lastIsNumber : Bool) (cls : String) (code : Int) : Bool :=
  cls == "ok" && (lastIsNumber || code != 0)

/-- a non-terminating script is stopped (error, no exit code) within timeout + slack -/
def timingOk (cls : String) (wallMs timeoutMs slackMs : Nat) : Bool :=
  (cls == "deadline" || cls == "error") && wallMs ≤ timeoutMs + slackMs

/-- every hook that ran is a hook of the stage assigned to a principal owning the signer's key -/
def hookSelOk (hooks : List Hook) (principals : List Principal) (key stage : Nat) (ran : List String) : Bool :=
  let owners := (principals.filter (fun p => p.keys.contains key)).map (·.id)
  ran.all (fun name => hooks.any (fun h => h.name == name && h.stages.contains stage &&
    h.principals.any owners.contains))

/-! ## Full-strength statements kept as `Prop`s where the code does not satisfy them -/

/-- No script action sequence changes any out-edge of a protected (module) table. -/
def TablesProtected (g : Graph) : Prop :=
  ∀ (as : List Action) (e : Edge), isProt g e.src = true →
    (e ∈ (run g as).edges ↔ e ∈ g.edges)

/-- The script is stopped no later than its deadline, whatever the steps cost. -/
def StoppedByDeadline : Prop :=
  ∀ (deadline start : Nat) (prog : List Nat), start ≤ deadline →
    (runVM deadline start prog).time ≤ deadline

end Gittuf.Sandbox
