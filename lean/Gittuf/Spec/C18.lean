/-
C18 - "Propagation copies exactly the upstream subtree and is idempotent".

After propagation for a directive, the downstream reference's tree equals its previous tree with
the directive's downstream path replaced by exactly the upstream reference's latest unskipped
recorded subtree (whole tree or the directive's upstream path), every other path - whatever its
name - is byte-for-byte unchanged, and a propagation entry names the upstream location and the
upstream log entry used.  When the downstream path already holds that content, propagation
creates no commit and no log entry, however often it is repeated.

The specification below speaks about flattened trees (path, mode, blob) only; it does not mention
git's text formats, the tree builder or object ids.
-/
import Gittuf.Model.Tree
namespace Gittuf.Tree
open Gittuf.Codec (Bytes Hash hasPrefix)

/-- path `p` lies below directory `dir` (`foo` is not below `foo`, `foobar/x` is not below `foo`) -/
def under (dir : Bytes) (p : Path) : Bool := hasPrefix (dir ++ [47]) p

/-- mode and blob of the leaf at `p` -/
def lookup (t : Tree) (p : Path) : Option (Mode × Hash) :=
  (t.find? (fun e => e.path == p)).map (fun e => (e.mode, e.id))

/-- `after` is `before` with directory `dir` replaced by exactly the tree `sub`:
below `dir` it is `sub`, every other path keeps its blob and mode, nothing else exists -/
def IsReplacement (before sub after : Tree) (dir : Bytes) : Prop :=
  ∀ p : Path, lookup after p = if under dir p then lookup sub (p.drop (dir.length + 1)) else lookup before p

/-- the result restricted to the downstream path is the upstream subtree -/
def SubtreeCopied (sub after : Tree) (dir : Bytes) : Prop := subtreeAt after dir = sub

/-- every path outside the downstream path keeps name, blob and mode, and no other path appears -/
def FramePreserved (before after : Tree) (dir : Bytes) : Prop :=
  ∀ e : Entry, under dir e.path = false → (e ∈ after ↔ e ∈ before)

def reroot (dir : Bytes) (e : Entry) : Entry := { e with path := dir ++ 47 :: e.path }

/-- the tree the statement prescribes.  In a tree sorted bytewise the paths below `dir` are the
contiguous block of paths with prefix `dir/`: the leaves in front of the block, then the upstream
leaves re-rooted, then the leaves behind the block (no sorting needed; the driver checks on every
case that this equals the sorted tree the repaired model writes: `good_is_ideal`). -/
def replaceAt (before sub : Tree) (dir : Bytes) : Tree :=
  before.filter (fun e => !under dir e.path && bytesLt e.path (dir ++ [47]))
    ++ sub.map (reroot dir)
    ++ before.filter (fun e => !under dir e.path && !bytesLt e.path (dir ++ [47]))

/-- the upstream content a directive refers to: the whole tree or the directory `upPath`;
`none` when `upPath` names no directory (outside the statement) -/
def wantedSubtree (up : Tree) (upPath : Bytes) : Option Tree :=
  if upPath = [] then some up else
  let s := subtreeAt up (trimSuffixSlash upPath)
  if s.isEmpty then none else some s

/-- the downstream path can hold a directory: it is neither the root nor (below) a file -/
def downPathUsable (down : Tree) (dir : Bytes) : Bool :=
  !dir.isEmpty && !down.any (fun e => e.path == dir || under e.path dir)

structure Expect where
  tree : Tree
  commits : Nat
  entries : List PEntry
  deriving DecidableEq, Repr

/-- what one directive has to do (`none`: the situation is outside the statement) -/
def expectStep (trees : List Tree) (log : List UpEntry) (st : Expect) (i : Nat) (d : Directive) : Option Expect :=
  match latestUnskipped log d.upRef with
  | none => some st                       -- nothing recorded upstream: nothing to do
  | some (k, e) =>
    let dir := trimSuffixSlash d.downPath
    match wantedSubtree (trees.getD e.commit []) d.upPath with
    | none => none
    | some s =>
      if !downPathUsable st.tree dir then none
      else if subtreeAt st.tree dir == s then some st     -- already holds that content
      else some { tree := replaceAt st.tree s dir, commits := st.commits + 1,
                  entries := st.entries ++ [⟨i, k, st.commits⟩] }

def expectCall (trees : List Tree) (log : List UpEntry) : Expect → List (Nat × Directive) → Option Expect
  | st, [] => some st
  | st, (i, d) :: rest =>
    match expectStep trees log st i d with
    | none => none
    | some st' => expectCall trees log st' rest

/-- one observed call of the implementation -/
structure Observed where
  ok : Bool
  tree : Tree
  commits : Nat
  entries : List PEntry
  /-- every new log entry is a propagation entry naming the downstream reference -/
  wellFormed : Bool
  deriving Repr

def observedMeets (o : Observed) (e : Expect) : Bool :=
  o.ok && o.wellFormed && o.tree == e.tree && o.commits == e.commits && o.entries == e.entries

end Gittuf.Tree
