/-
C17 — concurrent writers cannot corrupt the log: the property, stated on what an observer
sees after the operations have finished (independent of how the model computes it).
Core Lean only.
-/
import Gittuf.Model.Script
namespace Gittuf.Script

/-- one commit reachable from the log tip, as seen by an independent walker. -/
structure Node where
  npar : Nat        -- number of parents
  number : Nat      -- entry number (0 = unnumbered / not an entry)
  owner : Nat       -- 0 = was there before, i+1 = written by operation i
  deriving DecidableEq, Repr, Inhabited

/-- a valid single-parent chain with consecutive numbers, newest first. -/
def ChainOK : List Node → Prop
  | [] => True
  | [n] => n.npar = 0 ∧ n.number = 1
  | n :: m :: rest => n.npar = 1 ∧ n.number = m.number + 1 ∧ ChainOK (m :: rest)

def chainOKB : List Node → Bool
  | [] => true
  | [n] => n.npar == 0 && n.number == 1
  | n :: m :: rest => n.npar == 1 && n.number == m.number + 1 && chainOKB (m :: rest)

theorem chainOKB_iff (l : List Node) : chainOKB l = true ↔ ChainOK l := by
  induction l with
  | nil => simp [chainOKB, ChainOK]
  | cons n t ih =>
    cases t with
    | nil => simp [chainOKB, ChainOK]
    | cons m rest => simp [chainOKB, ChainOK, ih, and_assoc]

def countOwner (chain : List Node) (o : Nat) : Nat := (chain.filter (fun n => n.owner == o)).length

/-- operation i reported `results[i]` (true = success): its entry is in the chain exactly once
if it succeeded and not at all if it failed. -/
def ExactlyOnce (results : List Bool) (chain : List Node) : Prop :=
  ∀ i, (h : i < results.length) → countOwner chain (i + 1) = if results[i] then 1 else 0

def exactlyOnceB (results : List Bool) (chain : List Node) : Bool :=
  (List.range results.length).all fun i =>
    countOwner chain (i + 1) == if results.getD i false then 1 else 0

/-- the entries that were there before are still there, at the old end of the chain. -/
def PreKept (pre : Nat) (chain : List Node) : Prop :=
  countOwner chain 0 = pre ∧ ∀ n ∈ chain.drop (chain.length - pre), n.owner = 0

def preKeptB (pre : Nat) (chain : List Node) : Bool :=
  countOwner chain 0 == pre && (chain.drop (chain.length - pre)).all (fun n => n.owner == 0)

/-- C17 on one observed outcome. `readerOK`: gittuf's own readers walked the log end to end. -/
def C17Holds (pre : Nat) (results : List Bool) (chain : List Node) (readerOK : Bool) : Prop :=
  ChainOK chain ∧ ExactlyOnce results chain ∧ PreKept pre chain ∧ readerOK = true

def c17HoldsB (pre : Nat) (results : List Bool) (chain : List Node) (readerOK : Bool) : Bool :=
  chainOKB chain && exactlyOnceB results chain && preKeptB pre chain && readerOK

/-- the model store seen through the same glasses. -/
def Store.nodes (s : Store) : List Node :=
  s.log.map fun id =>
    match s.commit? id with
    | some cm => { npar := cm.parents.length, number := cm.payload.number, owner := cm.owner }
    | none => { npar := 99, number := 0, owner := 0 }

end Gittuf.Script
