/-
C02 — Policy takes effect only via an unbroken, rollback-free chain of trust.
Declarative restatement by direct counting of signer keys (roots and primary rule
files are signed by bare keys; delegated files by the principals of the delegating rule).
-/
import Gittuf.Spec.C01
namespace Gittuf

/-- number of distinct keys of `keys` that signed -/
def keysCount (signers keys : List KeyId) : Nat :=
  (keys.eraseDups.filter (fun k => signers.contains k)).length

def thresholdMet (t : Int) (n : Nat) : Bool := decide (1 ≤ t) && decide (t ≤ (n : Int))

/-- root of `cur` signed by a threshold of the root principals of `prev` -/
def rootSignedBy (prev cur : Root) : Bool :=
  thresholdMet prev.rootThreshold (keysCount cur.signers prev.rootKeys)

def primarySigned (P : Policy) : Bool :=
  match P.primary with
  | none => true
  | some f => thresholdMet P.root.targetsThreshold (keysCount f.signers P.root.targetsKeys)

/-- principal definitions visible when the rules of file `f` are evaluated: its own and its ancestors';
approximated (soundly for generated policies, whose ids are globally consistent) by all definitions -/
def Policy.defsAll (P : Policy) : List PrincipalSpec := P.files.flatMap (·.principals)

/-- delegated files reachable from the primary file: least fixed point by iteration -/
def Policy.reachable (P : Policy) : List String :=
  let step (acc : List String) : List String :=
    let entered := (match P.primary with | some f => [f] | none => []) ++
      P.delegated.filter (fun f => acc.contains f.name)
    let named := entered.flatMap (fun f => (f.rules.dropLast).map (·.name))
    (acc ++ (P.delegated.map (·.name)).filter (fun n => named.contains n && !acc.contains n))
  (List.range (P.files.length + 1)).foldl (fun acc _ => step acc) []

/-- every reachable delegated file is signed as required by a rule that delegates to it -/
def delegationsSigned (P : Policy) : Bool :=
  let reach := P.reachable
  let entered := (match P.primary with | some f => [f] | none => []) ++
      P.delegated.filter (fun f => reach.contains f.name)
  entered.all (fun f => (f.rules.dropLast).all (fun r =>
    match P.delegated.find? (·.name == r.name) with
    | none => true
    | some df =>
      let n := (r.principals.eraseDups.filter (fun pid =>
        match P.defsAll.find? (·.id == pid) with
        | some d => d.keys.any (fun k => df.signers.contains k)
        | none => false)).length
      thresholdMet r.threshold n))

def noDangling (P : Policy) : Bool := P.delegated.all (fun f => P.reachable.contains f.name)

/-- internal consistency of a state that takes effect -/
def selfOK (P : Policy) : Bool := primarySigned P && delegationsSigned P && noDangling P

/-- version numbers never decrease and rule files never disappear -/
def versionsOK (prev cur : Policy) : Bool :=
  decide (prev.root.version ≤ cur.root.version) &&
  (match prev.primary, cur.primary with
   | none, _ => true
   | some _, none => false
   | some pf, some cf => decide (pf.version ≤ cf.version) &&
       prev.delegated.all (fun pd => match cur.delegated.find? (·.name == pd.name) with
         | none => false
         | some cd => decide (pd.version ≤ cd.version)))

namespace World

/-- log indices of the policy entries (reference entries for the policy ref), oldest first -/
def policyEntries (W : World) : List Nat :=
  (List.range W.log.length).filter (fun j =>
    match W.log[j]? with | some e => isUpdater e && e.ref == policyRef | none => false)

/-- chain conditions between consecutive policy entries, up to and including log index `upTo` -/
def chainOKUpTo (W : World) (upTo : Nat) : Bool :=
  let ps := (W.policyEntries.filter (· ≤ upTo)).filterMap W.policyAt
  (ps.zip (ps.drop 1)).all (fun (prev, cur) => rootSignedBy prev.root cur.root && versionsOK prev cur)

/-- C02 on a concrete verification of range [first, last] for a reference: the policy entries the
verification depends on satisfy the conditions of the property. -/
def c02Sound (W : World) (first last : Nat) : Bool :=
  let p0 := match W.log[first]? with
    | some fe => if isUpdater fe && fe.ref == policyRef then some first else W.latestFor policyRef first
    | none => none
  let inRange := W.policyEntries.filter (fun j => first < j && j ≤ last)
  let used := (match p0 with | some p => [p] | none => []) ++ inRange
  used.all (fun j => match W.policyAt j with | some P => selfOK P | none => false) &&
  (match used.getLast? with | some m => W.chainOKUpTo m | none => true)

end World
end Gittuf
