/-
C15 — Reconcile and sync never drop, reorder, un-revoke or invent log entries.
The property restated declaratively (independent of the algorithms of Model/Sync), plus Bool
versions the driver evaluates on what the implementation left behind.
-/
import Gittuf.Model.Sync
namespace Gittuf.Sync

/-! ### meaning of a log -/

def Log.ids (l : Log) : List EId := l.map (·.id)

/-- ids an entry names (annotations only) -/
def Entry.names (e : Entry) : List EId :=
  match e.body with
  | .annotation ids _ _ => ids
  | _ => []

/-- entry `i` is revoked in `log`: some annotation of the log with the skip flag names it -/
def Skipped (log : Log) (i : EId) : Prop :=
  ∃ a ∈ log, ∃ ids msg, a.body = .annotation ids true msg ∧ i ∈ ids

def skippedB (log : Log) (i : EId) : Bool := log.any (fun a => annSkips a i)

/-- the reference an entry changes: reference *and* propagation entries -/
def Entry.changes (e : Entry) : Option String :=
  match e.body with
  | .reference r _ => some r
  | .propagation r _ _ _ => some r
  | .annotation .. => none

def Entry.target? (e : Entry) : Option Obj :=
  match e.body with
  | .reference _ t => some t
  | .propagation _ t _ _ => some t
  | .annotation .. => none

/-- both sides changed the same reference -/
def Conflict (lo ro : Log) : Prop :=
  ∃ a ∈ lo, ∃ b ∈ ro, ∃ r, a.changes = some r ∧ b.changes = some r

def conflictB (lo ro : Log) : Bool :=
  lo.any (fun a => ro.any (fun b => a.changes.isSome && a.changes == b.changes))

/-! ### reconcile -/

/-- the same entry under its new name: new id, same kind / reference / target / upstream /
skip flag / message; the ids an annotation names follow the renaming (ids of entries that were
not re-recorded are not in `ρ` and stay) -/
def renameEntry (ρ : IdMap) (e : Entry) : Entry :=
  { id := applyMap ρ e.id, body := renameBody ρ e.body }

def rename (ρ : IdMap) (l : Log) : Log := l.map (renameEntry ρ)

/-- What a successful reconciliation of `shared ++ lo` with `remoteLog = shared ++ ro` must
leave behind. -/
structure ReconcileSpec (localLog remoteLog lo newLog : Log) (ρ : IdMap) : Prop where
  /-- extends the remote tip by the local-only entries, in order, under new names -/
  shape : newLog = remoteLog ++ rename ρ lo
  /-- every id of the new log occurs once: nothing is duplicated, no new name collides -/
  once : newLog.ids.Nodup
  /-- revocations survive: the counterpart of an entry is skipped iff the entry was -/
  skips : ∀ e ∈ lo, Skipped newLog (applyMap ρ e.id) ↔ Skipped localLog e.id

def nodupB : List Nat → Bool
  | [] => true
  | x :: xs => !xs.contains x && nodupB xs

/-- the renaming read off an observed log: i-th local-only entry ↦ i-th entry after the remote's -/
def observedMap (lo suffix : Log) : IdMap := (lo.zip suffix).map (fun p => (p.1.id, p.2.id))

/-- annotations part of the judgement (F12): the suffix is the renamed local-only log as far as
reference entries and annotations go, and skips are preserved -/
def reconcileOkB (localLog remoteLog lo newLog : Log) : Bool :=
  let suffix := newLog.drop remoteLog.length
  let ρ := observedMap lo suffix
  newLog.take remoteLog.length == remoteLog &&
  suffix.length == lo.length &&
  suffix == rename ρ lo &&
  nodupB newLog.ids &&
  lo.all (fun e => skippedB newLog (applyMap ρ e.id) == skippedB localLog e.id)

/-- the observed suffix with the propagation entries of `lo` left out — what remains of the
property if propagation entries did not have to be kept (used to tell F12b from F12) -/
def dropProps (l : Log) : Log := l.filter (fun e => match e.body with | .propagation .. => false | _ => true)

/-! ### sync -/

/-- target of the latest entry for `ref` (reference or propagation) that is not skipped in `log` -/
def latestUnskipped (log : Log) (ref : String) : Option Obj :=
  match log.reverse.find? (fun e => e.changes == some ref && !skippedB log e.id) with
  | some e => e.target?
  | none => none

/-- references named by unskipped entries of `lo` (skips judged in the whole log) -/
def namedRefs (whole lo : Log) : List String :=
  (lo.filter (fun e => !skippedB whole e.id)).filterMap (·.changes)

def isPrefixB (a b : Log) : Bool := b.take a.length == a

/-- A local reference changes only to the state its latest unskipped remote entry records, and
never backwards / sideways unless overwriting was asked for. -/
def syncMovesB (knows : Obj → Obj → Bool) (overwrite : Bool) (remoteLog : Log)
    (before after : Refs) (names : List String) : Bool :=
  names.all (fun r =>
    let b := before.lookup r
    let a := after.lookup r
    a == b ||
      (a.isSome && a == latestUnskipped remoteLog r &&
        (overwrite || match a, b with
          | some x, some y => knows x y
          | _, _ => true)))

/-- The local log is left alone, fast-forwarded to the remote log, or (overwrite) replaced by it. -/
def syncLogB (overwrite : Bool) (localLog remoteLog newLocal : Log) : Bool :=
  newLocal == localLog || (newLocal == remoteLog && (isPrefixB localLog remoteLog || overwrite))

/-- Local-only entries are published only by fast-forwarding the remote log to the local one,
and only together with every reference their unskipped entries name (which then has the local
state on the remote); no other remote reference moves, none moves backwards. -/
def syncPublishesB (knows : Obj → Obj → Bool) (localLog remoteLog newRemote : Log)
    (lrefs rrefsBefore rrefsAfter : Refs) (names : List String) : Bool :=
  let lo := localLog.drop remoteLog.length
  let named := namedRefs localLog lo
  let published := newRemote != remoteLog
  (!published || (newRemote == localLog && isPrefixB remoteLog localLog &&
      named.all (fun r => (lrefs.lookup r).isSome && rrefsAfter.lookup r == lrefs.lookup r))) &&
  names.all (fun r =>
    let b := rrefsBefore.lookup r
    let a := rrefsAfter.lookup r
    a == b || (published && named.contains r && a == lrefs.lookup r &&
      match a, b with
      | some x, some y => knows x y
      | _, _ => true))

end Gittuf.Sync
