/-
C04 — RSL queries match a plain scan of the chain and fail closed on tampering.

The readers' answers restated over the log as a plain list, newest entry first, with
`find?` / `filter` / `takeWhile` — no walking state, no accumulated annotations.
`atEnd` says what lies beyond the end of the list: `.notFound` for a complete log (the
last element is the first entry of the RSL); for a tampered chain the list is its
well-formed prefix and `atEnd` is the error of the step that leaves it (`wfPrefix`).
A scan that has to go past the end of the list answers `atEnd`.
-/
import Gittuf.Model.Log
namespace Gittuf.RSL

/-- every annotation of the log that refers to `i` (newest first) -/
def annotationsOn (log : List LEntry) (i : Id) : List LEntry := log.filter (fun a => a.e.refersTo i)

/-- some annotation of the log revokes `i` -/
def isSkipped (log : List LEntry) (i : Id) : Bool := log.any (fun a => a.e.skips i)

/-- the query conditions on a single entry -/
def Opts.qualifies (o : Opts) (log : List LEntry) (x : LEntry) : Bool :=
  match x.e with
  | .annotation .. => false
  | .reference r _ _ =>
    (o.ref == "" || r == o.ref) && !(o.unskipped && isSkipped log x.id) &&
      o.propRepo == "" && !(o.nonGittuf && isGittufRef r)
  | .propagation r _ up _ _ =>
    (o.ref == "" || r == o.ref) && !o.isRef &&
      (o.propRepo == "" || up == o.propRepo) && !(o.nonGittuf && isGittufRef r)

/-- the elements up to and including the first one satisfying `p` -/
def takeThrough {α} (p : α → Bool) : List α → List α
  | [] => []
  | x :: xs => if p x then [x] else x :: takeThrough p xs

/-- The part of `cand` the until bound admits (both bounds inclusive, as documented), and
whether the bound was met inside `cand` (then running out of candidates is a definite
"not found"; otherwise the scan would have to go on past the end of the list). -/
def untilWindow (o : Opts) (cand : List LEntry) : List LEntry × Bool :=
  match o.untilId with
  | some u => if cand.any (·.id == u) then (takeThrough (·.id == u) cand, true) else (cand, false)
  | none =>
    if o.untilNum != 0 then
      let w := cand.takeWhile (fun x => decide (o.untilNum ≤ x.number))
      (w, decide (w.length < cand.length))
    else (cand, false)

/-- `GetLatestReferenceUpdaterEntry`: the newest qualifying entry strictly older than the
before bound and not older than the until bound, with every annotation on it.
Inconsistent options (both before bounds, both until bounds, a reference-entry and a
propagation-entry requirement together, number bounds on an unnumbered log, an until number
above the latest number, or an until number newer than the before bound) are `badOptions`. -/
def latestSpec (o : Opts) (log : List LEntry) (atEnd : RErr := .notFound) :
    Except RErr (LEntry × List LEntry) :=
  if o.staticBad then .error .badOptions else
  match log with
  | [] => .error atEnd
  | tip :: _ =>
    if o.numBad tip.number then .error .badOptions else
    let cand : Except RErr (List LEntry) :=
      if o.hasBefore then
        let newer := log.takeWhile (fun x => !o.isBeforeAnchor x)
        match log.dropWhile (fun x => !o.isBeforeAnchor x) with
        | [] => if log.any (fun x => decide (x.number < o.untilNum)) then .error .badOptions else .error atEnd
        | b :: older =>
          if (newer ++ [b]).any (fun x => decide (x.number < o.untilNum)) then .error .badOptions else .ok older
      else .ok log
    match cand with
    | .error e => .error e
    | .ok cand =>
      let w := untilWindow o cand
      match w.1.find? (o.qualifies log) with
      | some x => .ok (x, annotationsOn log x.id)
      | none => .error (if w.2 then .notFound else atEnd)

def refMatches (ref : String) (x : LEntry) : Bool :=
  match x.e.refName? with
  | some r => ref == "" || r == ref
  | none => false

/-- `GetFirstReferenceUpdaterEntryForRef` (`ref = ""`: `GetFirstEntry`): the oldest
reference-updating entry for the ref; needs the whole chain. -/
def firstSpec (ref : String) (log : List LEntry) (atEnd : RErr := .notFound) :
    Except RErr (LEntry × List LEntry) :=
  match atEnd with
  | .notFound =>
    match (log.filter (refMatches ref)).getLast? with
    | none => .error .notFound
    | some f => .ok (f, annotationsOn log f.id)
  | e => .error e

def isNonGittufUpdater (x : LEntry) : Bool :=
  match x.e.refName? with
  | some r => !isGittufRef r
  | none => false

/-- `GetNonGittufParentReferenceUpdaterEntryForEntry`: the newest reference-updating entry
outside refs/gittuf/ strictly older than the entry with id `i`. -/
def nonGittufParentSpec (i : Id) (log : List LEntry) (atEnd : RErr := .notFound) :
    Except RErr (LEntry × List LEntry) :=
  match log.dropWhile (fun x => x.id != i) with
  | [] => .error atEnd
  | _ :: older =>
    match older.find? isNonGittufUpdater with
    | some x => .ok (x, annotationsOn log x.id)
    | none => .error atEnd

/-- the entry's target contains the commit (`KnowsCommit(target, commit)`) -/
def knowsEntry (knows : Id → Id → Bool) (commit : Id) (x : LEntry) : Bool :=
  match x.e.target? with
  | some t => knows t commit
  | none => false

/-- `GetFirstReferenceUpdaterEntryForCommit`: among the entries outside refs/gittuf/, newest
first, the last one of the initial run whose targets all contain the commit. -/
def forCommitSpec (knows : Id → Id → Bool) (commit : Id) (log : List LEntry) (atEnd : RErr := .notFound) :
    Except RErr (LEntry × List LEntry) :=
  let ng := log.filter isNonGittufUpdater
  match ng with
  | [] => .error (if atEnd == .notFound then .noRecord else atEnd)
  | f :: rest =>
    if !knowsEntry knows commit f then .error .noRecord else
    let run := rest.takeWhile (knowsEntry knows commit)
    let res := (f :: run).getLast?.getD f
    if run.length < rest.length then .ok (res, annotationsOn log res.id)
    else if atEnd == .notFound then .ok (res, annotationsOn log res.id) else .error atEnd

/-- `GetReferenceUpdaterEntriesInRangeForRef`: the relevant entries from `first` to `last`
in log order (oldest first), each with all annotations on it, oldest first — including
annotations recorded after `last`. -/
def rangeSpec (first last : Id) (refName : String) (log : List LEntry) (atEnd : RErr := .notFound) :
    Except RErr (List (LEntry × List LEntry)) :=
  match log.dropWhile (fun x => x.id != last) with
  | [] => .error atEnd
  | fromLast =>
    match fromLast.dropWhile (fun x => x.id != first) with
    | [] => .error atEnd
    | f :: _ =>
      let seg := fromLast.takeWhile (fun x => x.id != first) ++ [f]
      .ok ((seg.filter (relevantFor refName)).reverse.map (fun x => (x, (annotationsOn log x.id).reverse)))

/-! ## Tampering -/

/-- The well-formed prefix of a first-parent chain (newest first) and the error of the step
that leaves it: `.notFound` when the chain ends regularly at a parentless entry. -/
def wfPrefix : List (Id × Commit) → List LEntry × RErr
  | [] => ([], .notFound)
  | (i, c) :: rest =>
    match c.entry with
    | none => ([], .invalid)
    | some e =>
      match c.parents with
      | [] => ([⟨i, e⟩], .notFound)
      | _ :: _ :: _ => ([⟨i, e⟩], .branch)
      | [_] =>
        match rest with
        | [] => ([⟨i, e⟩], .notFound)     -- parent object missing
        | (_, c') :: _ =>
          match c'.entry with
          | none => ([⟨i, e⟩], .invalid)
          | some e' =>
            if linkOk e.number e'.number then
              let r := wfPrefix rest
              (⟨i, e⟩ :: r.1, r.2)
            else ([⟨i, e⟩], .invalid)

/-- the chain from the tip has an extra parent, a numbering break or a non-entry somewhere -/
def Tampered (s : Store) : Prop := (wfPrefix s.chain).2 ≠ .notFound

def tamperedB (s : Store) : Bool := (wfPrefix s.chain).2 != .notFound

/-- no annotation names itself or a newer entry (ids are content hashes) -/
def AnnBackward : List LEntry → Prop
  | [] => True
  | x :: older => (∀ a ∈ x :: older, a.e.refersTo x.id = false) ∧ AnnBackward older

def annBackwardB : List LEntry → Bool
  | [] => true
  | x :: older => (x :: older).all (fun a => !a.e.refersTo x.id) && annBackwardB older

end Gittuf.RSL
