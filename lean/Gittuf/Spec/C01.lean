/-
C01 — Verification accepts only histories authorized by the policy in force.
Declarative restatement, independent of the verification algorithm: it talks about
the log as a list, "the policy / attestation state immediately preceding the entry",
and counts principals directly (for key-disjoint principals, as generated).
-/
import Gittuf.Model.Verify
namespace Gittuf
namespace World

/-- the policy state recorded by the latest policy entry strictly before log index `i` -/
def policyBefore (W : World) (i : Nat) : Option Policy :=
  (W.latestFor policyRef i).bind W.policyAt

def attBefore (W : World) (i : Nat) : Option AttState :=
  (W.latestFor attestationsRef i).bind W.attAt

/-- principal `p` (with definition `d`) contributed to the change (ref, from, tree) recorded by an
entry/commit signed by `signer`: through that signature, through a signature on the authorization
whose *signed statement* names exactly this change, or by being named (not dismissed) in a trusted
app's approval whose signed statement names exactly this change. -/
def contributed (P : Policy) (A : Option AttState) (ref : String) (frm : Option Nat) (tree : Nat)
    (signer : Option KeyId) (d : PrincipalSpec) : Bool :=
  (match signer with | some k => d.keys.contains k | none => false) ||
  (match A with
   | none => false
   | some A =>
     A.auths.any (fun a => a.ref == ref && a.frm == frm && a.to == tree &&
        a.sref == ref && a.sfrom == frm && a.sto == tree &&
        a.signers.any (fun k => d.keys.contains k)) ||
     A.gh.any (fun g => g.ref == ref && g.frm == frm && g.to == tree &&
        P.root.apps.any (fun app => app.trusted && app.name == g.app && g.signers.contains app.key &&
          d.person && d.identities.any (fun (an, idn) => an == app.name && g.approvers.contains idn))))

/-- some rule consulted for `path` (C06 walk) is satisfied, or none is consulted -/
def pathAuthorized (P : Policy) (A : Option AttState) (path ref : String) (frm : Option Nat) (tree : Nat)
    (signer : Option KeyId) : Bool :=
  match P.findSpecific path with
  | none => false
  | some vs =>
    vs.isEmpty || vs.any (fun vn =>
      decide (1 ≤ vn.v.threshold) &&
      decide (vn.v.threshold ≤ ((vn.v.principals.filter (fun p =>
        match P.allPrincipals.find? (·.id == p.id) with
        | some d => contributed P A ref frm tree signer d
        | none => false)).length : Int)))

/-- entry `i` is authorized by the states in force immediately before it -/
def entryAuthorized (W : World) (i : Nat) : Bool :=
  match W.log[i]?, W.policyBefore i with
  | some e, some P =>
    match targetCommit e with
    | none => false
    | some tc =>
      let A := W.attBefore i
      let frm := W.fromId e.ref i
      let tree := W.treeOf tc
      pathAuthorized P A ("git:" ++ e.ref) e.ref frm tree e.signer &&
      (!P.hasFileRule ||
        (W.commitsBetween tc frm).all (fun c =>
          let cs := match W.commits[c]? with | some cs => cs.signer | none => none
          (W.changedPaths c).all (fun path => pathAuthorized P A ("file:" ++ path) e.ref frm tree cs)))
  | _, _ => false

/-- indices of the entries recorded for `ref` (reference and propagation entries) -/
def entriesFor (W : World) (ref : String) : List Nat :=
  (List.range W.log.length).filter (fun j =>
    match W.log[j]? with | some e => isUpdater e && e.ref == ref | none => false)

/-- C01 soundness on a concrete history: if full verification reported success with tip `tip`,
every unrevoked entry for the reference is authorized by the states in force before it, and the
tip is the target of the latest entry. -/
def c01Sound (W : World) (ref : String) (tip : Option Nat) : Bool :=
  (W.entriesFor ref).all (fun j => W.skipped j || W.entryAuthorized j) &&
  (match W.latestEntryFor ref with
   | some l => (W.log[l]?).bind targetCommit == tip
   | none => false)

end World
end Gittuf
