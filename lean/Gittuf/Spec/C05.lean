/-
C05 — Thresholds count distinct trusted principals, each with a distinct valid key.
The property restated declaratively (independent of the algorithm in Model/Sig).
-/
import Gittuf.Model.Sig
namespace Gittuf

def GitValid (g : Option Sig) (gd : Digest) (k : KeyId) : Prop :=
  ∃ s, g = some s ∧ s.okFor k gd = true

def EnvValid (env : Option Envelope) (k : KeyId) : Prop :=
  ∃ e s, env = some e ∧ s ∈ e.sigs ∧ s.okFor k e.digest = true

/-- `S` is a set of distinct principals of the rule, each credited through a
different key of its own that carries a valid signature over exactly this object /
this envelope payload; at most one of them (`pg`) is credited through the Git
object's own signature. -/
def CreditedInjectively (v : Verifier) (g : Option Sig) (gd : Digest) (env : Option Envelope)
    (S : List PId) : Prop :=
  S.Nodup ∧ ∃ (f : PId → KeyId) (pg : Option PId),
    (∀ p ∈ S, ∃ P ∈ v.principals, P.id = p ∧ f p ∈ P.keys ∧
        ((pg = some p ∧ GitValid g gd (f p)) ∨ EnvValid env (f p))) ∧
    (∀ p ∈ S, ∀ q ∈ S, f p = f q → p = q)

/-- The rule is satisfied by the given signatures (what the property calls "a set of
signatures satisfies a rule"). -/
def Satisfies (v : Verifier) (g : Option Sig) (gd : Digest) (env : Option Envelope) : Prop :=
  1 ≤ v.threshold ∧ v.principals ≠ [] ∧
  ∃ S, v.threshold ≤ (S.length : Int) ∧ CreditedInjectively v g gd env S

/-! Executable (brute-force) version of `CreditedInjectively`, used by the driver to
judge what the *implementation* returned. -/

def gitValidB (g : Option Sig) (gd : Digest) (k : KeyId) : Bool :=
  match g with | none => false | some s => s.okFor k gd

def envValidB (env : Option Envelope) (k : KeyId) : Bool :=
  match env with | none => false | some e => e.sigs.any (fun s => s.okFor k e.digest)

/-- search for an injective key assignment; `fuel` = number of principals left -/
def assignB (v : Verifier) (g : Option Sig) (gd : Digest) (env : Option Envelope) :
    List PId → List KeyId → Bool → Bool
  | [], _, _ => true
  | p :: rest, used, gitUsed =>
    v.principals.any (fun P => P.id == p && P.keys.any (fun k =>
      !used.contains k &&
        ((envValidB env k && assignB v g gd env rest (k :: used) gitUsed) ||
         (!gitUsed && gitValidB g gd k && assignB v g gd env rest (k :: used) true))))

def nodupB : List Nat → Bool
  | [] => true
  | x :: xs => !xs.contains x && nodupB xs

def creditedB (v : Verifier) (g : Option Sig) (gd : Digest) (env : Option Envelope)
    (S : List PId) : Bool :=
  nodupB S && assignB v g gd env S [] false

end Gittuf
