/-
C14 — RSL entry text and its parsed form determine each other.
The property restated declaratively, plus `Bool` versions with which the driver judges what the
*implementation* returned.  Core only.
-/
import Gittuf.Model.Codec
namespace Gittuf.Codec

/-! ## entries that can be written and read back -/

/-- A value survives `": " ++ v` / `strings.TrimSpace`: no line break inside, no white-space rune
(in the sense of `unicode.IsSpace`, UTF-8 encoded) at either end. -/
def CleanValue (v : Bytes) : Prop :=
  (10 : UInt8) ∉ v ∧ wsLen v = 0 ∧ wsRevLen v.reverse = 0

instance (v : Bytes) : Decidable (CleanValue v) := by unfold CleanValue; exact inferInstance

/-- a SHA-1 or SHA-256 object id: 40 or 64 hex digits -/
def HashWF (h : Hash) : Prop := h.length = 40 ∨ h.length = 64
instance (h : Hash) : Decidable (HashWF h) := by unfold HashWF; exact inferInstance

def RefEntry.WF (e : RefEntry) : Prop :=
  CleanValue e.ref ∧ HashWF e.target ∧ e.number < two64
def PropEntry.WF (e : PropEntry) : Prop :=
  CleanValue e.ref ∧ HashWF e.target ∧ CleanValue e.upstream ∧ HashWF e.upstreamId ∧ e.number < two64
/-- `message` is arbitrary: it travels PEM-armoured. -/
def AnnEntry.WF (e : AnnEntry) : Prop :=
  e.ids ≠ [] ∧ (∀ h ∈ e.ids, HashWF h) ∧ e.number < two64

instance (e : RefEntry) : Decidable e.WF := by unfold RefEntry.WF; exact inferInstance
instance (e : PropEntry) : Decidable e.WF := by unfold PropEntry.WF; exact inferInstance
instance (e : AnnEntry) : Decidable e.WF := by unfold AnnEntry.WF; exact inferInstance

def Entry.WF : Entry → Prop
  | .ref e => e.WF
  | .ann e => e.WF
  | .prop e => e.WF
instance (e : Entry) : Decidable e.WF := by cases e <;> (unfold Entry.WF; exact inferInstance)

/-- The PEM armour of this message decodes to the message again when `pem.Decode` is run over the
whole entry text (contract of encoding/pem + encoding/base64; decidable, evaluated by the driver
on every recorded annotation). -/
def PemRoundTrip (e : AnnEntry) : Prop := messageOf (renderAnn e) = e.message
instance (e : AnnEntry) : Decidable (PemRoundTrip e) := by unfold PemRoundTrip; exact inferInstance

/-! ## the statements -/

/-- writing then reading gives the entry back -/
def ParseRender (e : Entry) : Prop := parse (render e) = .ok e

/-- whatever text is accepted, the accepted entry is a fixed point of write-then-read -/
def ParseCanonical (t : Bytes) : Prop := ∀ e, parse t = .ok e → parse (render e) = .ok e

/-! ## one text, one value per field

The fields of a text, read *independently of the state machine*: every body line, split at the
first `:` exactly as the parser splits it, restricted to the keys the entry kind knows. -/

/-- lines after header and blank line -/
def bodyOf (t : Bytes) : List Bytes := (splitNL t).drop 2

/-- all (key, value) pairs of the body whose key is one of `keys`, in text order -/
def knownFields (keys : List Bytes) (body : List Bytes) : List (Bytes × Bytes) :=
  (body.filterMap splitField).filter (fun kv => keys.contains kv.1)

/-- the annotation machine stops reading at the message marker -/
def annBody (body : List Bytes) : List Bytes :=
  body.takeWhile (fun l => trimSpace l ≠ beginMessage)

def refKeys : List Bytes := [kRef, kTarget, kNumber]
def propKeys : List Bytes := [kRef, kTarget, kUpRepo, kUpEntry, kNumber]
def annKeys : List Bytes := [kEntryID, kSkip, kNumber]

/-- the text carries exactly the canonical field sequence of `e`, each known key once, in order,
with values that denote `e`'s fields -/
def refFieldsB (e : RefEntry) (fs : List (Bytes × Bytes)) : Bool :=
  match fs with
  | [(k1, r), (k2, t)] =>
    k1 == kRef && r == e.ref && k2 == kTarget && hashOf t == .ok e.target && e.number == 0
  | [(k1, r), (k2, t), (k3, n)] =>
    k1 == kRef && r == e.ref && k2 == kTarget && hashOf t == .ok e.target &&
      k3 == kNumber && parseUint n == .ok e.number
  | _ => false

def propFieldsB (e : PropEntry) (fs : List (Bytes × Bytes)) : Bool :=
  match fs with
  | [(k1, r), (k2, t), (k3, u), (k4, ue)] =>
    k1 == kRef && r == e.ref && k2 == kTarget && hashOf t == .ok e.target &&
      k3 == kUpRepo && u == e.upstream && k4 == kUpEntry && hashOf ue == .ok e.upstreamId && e.number == 0
  | [(k1, r), (k2, t), (k3, u), (k4, ue), (k5, n)] =>
    k1 == kRef && r == e.ref && k2 == kTarget && hashOf t == .ok e.target &&
      k3 == kUpRepo && u == e.upstream && k4 == kUpEntry && hashOf ue == .ok e.upstreamId &&
      k5 == kNumber && parseUint n == .ok e.number
  | _ => false

/-- entryID+ skip number? -/
def annFieldsB (e : AnnEntry) (fs : List (Bytes × Bytes)) : Bool :=
  let idFs := fs.takeWhile (fun kv => kv.1 == kEntryID)
  let rest := fs.dropWhile (fun kv => kv.1 == kEntryID)
  !idFs.isEmpty && idFs.map (fun kv => hashOf kv.2) == e.ids.map Except.ok &&
  (match rest with
   | [(k1, s)] => k1 == kSkip && s == (if e.skip then vTrue else vFalse) && e.number == 0
   | [(k1, s), (k2, n)] =>
     k1 == kSkip && s == (if e.skip then vTrue else vFalse) && k2 == kNumber && parseUint n == .ok e.number
   | _ => false)

/-- every line the machine reads has a `:` (a line without one is rejected) -/
def allSplit (body : List Bytes) : Bool := body.all (fun l => (splitField l).isSome)

/-- "one text, one value": the accepted entry is the only reading of the text's known fields -/
def fieldsCanonicalB (t : Bytes) : Entry → Bool
  | .ref e => allSplit (bodyOf t) && refFieldsB e (knownFields refKeys (bodyOf t))
  | .prop e => allSplit (bodyOf t) && propFieldsB e (knownFields propKeys (bodyOf t))
  | .ann e => allSplit (annBody (bodyOf t)) && annFieldsB e (knownFields annKeys (annBody (bodyOf t)))
      && e.message == messageOf t

/-- The property, judged on an (input text, accepted entry) pair: the entry re-renders to a text
that parses to the same entry, and the text has exactly the canonical fields of the entry. -/
def acceptedOkB (t : Bytes) (e : Entry) : Bool :=
  (parse (render e) == .ok e) && fieldsCanonicalB t e

/-- Field-wise equality of what was written and what was read back (the comparison is on all
fields the statement lists; `Entry` has decidable equality). -/
def readBackB (written read : Entry) : Bool := written == read

end Gittuf.Codec
