/-
C16 — a storage failure (or a stop) at any step leaves the log valid and the managed
references consistent: the property on observed states (refs + log), independent of the model.
Core Lean only.
-/
import Gittuf.Spec.C17
namespace Gittuf.Script

/-- a log entry as an observer sees it. -/
structure OEntry where
  kind : String
  ref : String
  target : String
  number : Nat
  npar : Nat
  deriving DecidableEq, Repr, Inhabited

/-- observed state: managed references (name ↦ object name, "" = absent) and the log, oldest first. -/
structure Obs where
  refs : List (String × String)
  log : List OEntry
  deriving DecidableEq, Repr, Inhabited

def Obs.nodes (o : Obs) : List Node :=
  o.log.reverse.map fun e => { npar := e.npar, number := e.number, owner := 0 }

/-- target of the latest entry for `r` ("" when there is none). -/
def Obs.latest (o : Obs) (r : String) : String :=
  match o.log.reverse.find? (fun e => e.kind == "ref" && e.ref == r) with
  | some e => e.target
  | none => ""

def Obs.ref (o : Obs) (r : String) : String := (o.refs.lookup r).getD ""

/-- every managed reference is unchanged or matches the target of its latest entry. -/
def RefsConsistent (before after : Obs) : Prop :=
  ∀ r ∈ after.refs.map (·.1), after.ref r = before.ref r ∨ (after.ref r ≠ "" ∧ after.ref r = after.latest r)

def refsConsistentB (before after : Obs) : Bool :=
  (after.refs.map (·.1)).all fun r =>
    after.ref r == before.ref r || (after.ref r != "" && after.ref r == after.latest r)

/-- outcome of one faulted run followed by a retry. -/
structure FaultObs where
  before : Obs
  after0 : Obs          -- after the uninterrupted run
  ok0 : Bool            -- the uninterrupted run succeeds
  reported : Bool       -- the faulted run returned an error
  after : Obs
  retryOk : Bool
  afterRetry : Obs
  readerOK : Bool       -- gittuf's readers walk the faulted log end to end

/-- C16, fault part. -/
def FaultHolds (f : FaultObs) : Prop :=
  f.reported = true ∧
  ChainOK f.after.nodes ∧ f.readerOK = true ∧
  f.before.log <+: f.after.log ∧
  RefsConsistent f.before f.after ∧
  (f.retryOk = f.ok0 ∧ f.afterRetry = f.after0)

def faultHoldsB (f : FaultObs) : Bool :=
  f.reported && chainOKB f.after.nodes && f.readerOK &&
  f.before.log.isPrefixOf f.after.log &&
  refsConsistentB f.before f.after &&
  (f.retryOk == f.ok0 && f.afterRetry == f.after0)

/-- C16, crash part: the log is a valid chain between the old and the new log; every managed
reference has its old value, its new value, or matches its latest entry; the verification
verdict is the old or the new one. -/
structure CrashObs where
  before : Obs
  after0 : Obs
  after : Obs
  readerOK : Bool
  verdictOK : Bool      -- verdict(after) ∈ {verdict(before), verdict(after0)}

def CrashHolds (c : CrashObs) : Prop :=
  ChainOK c.after.nodes ∧ c.readerOK = true ∧
  c.before.log <+: c.after.log ∧ c.after.log <+: c.after0.log ∧
  (∀ r ∈ c.after.refs.map (·.1),
    c.after.ref r = c.before.ref r ∨ c.after.ref r = c.after0.ref r ∨ (c.after.ref r ≠ "" ∧ c.after.ref r = c.after.latest r)) ∧
  c.verdictOK = true

def crashHoldsB (c : CrashObs) : Bool :=
  chainOKB c.after.nodes && c.readerOK &&
  c.before.log.isPrefixOf c.after.log && c.after.log.isPrefixOf c.after0.log &&
  ((c.after.refs.map (·.1)).all fun r =>
    c.after.ref r == c.before.ref r || c.after.ref r == c.after0.ref r || (c.after.ref r != "" && c.after.ref r == c.after.latest r)) &&
  c.verdictOK

-- ---- the model store seen through the same glasses (used by the theorems) -------------

/-- store-level consistency invariant: each of policy / staging / attestations is absent and has
no entry, or equals the target of its latest entry. -/
def Store.refOK (s : Store) (r : Ref) : Bool :=
  match s.get r, s.latestFor r with
  | none, none => true
  | some c, some (_, t) => c == t
  | _, _ => false

def Store.consistent (s : Store) : Bool :=
  s.refOK .policy && s.refOK .staging && s.refOK .attest && chainOKB s.nodes

/-- each managed reference unchanged or matching its latest entry. -/
def Store.refsVs (before after : Store) : Bool :=
  [Ref.policy, Ref.staging, Ref.attest].all fun r =>
    after.get r == before.get r ||
      (match after.get r, after.latestFor r with
       | some c, some (_, t) => c == t
       | _, _ => false)

end Gittuf.Script
