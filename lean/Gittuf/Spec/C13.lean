import Gittuf.Model.Meta
/-
C13 — what "well formed" means for policy metadata, stated on the metadata
itself (independent of how the mutators are written), each with a `Bool`
version that the driver evaluates on the objects produced by the real code.
Core Lean only.
-/
namespace Gittuf.Meta

/-- A user rule of a rule file is well formed w.r.t. the principals the file defines:
its name does not carry the reserved prefix, its threshold is at least one and can be met
by the *distinct* principals it lists, and every listed principal is defined. -/
def RuleOK (defined : List String) (r : Rule) : Prop :=
  reserved r.name = false ∧ 1 ≤ r.threshold ∧ r.threshold ≤ (r.principals.length : Int) ∧
  r.principals.Nodup ∧ ∀ p ∈ r.principals, p ∈ defined

/-- `RuleOK` without "the listed principals can meet the threshold" (the part finding F10, now repaired, broke) -/
def RuleStruct (defined : List String) (r : Rule) : Prop :=
  reserved r.name = false ∧ 1 ≤ r.threshold ∧ r.principals.Nodup ∧ ∀ p ∈ r.principals, p ∈ defined

/-- The rule file ends with the allow rule, and every rule before it is a well-formed user rule
(in particular the allow rule, whose name is reserved, occurs nowhere else). -/
def MetaInv (m : TargetsMeta) : Prop :=
  ∃ init, m.rules = init ++ [allowRule] ∧ ∀ r ∈ init, RuleOK m.ids r

/-- the structural part of `MetaInv`, which every mutator preserves for arbitrary arguments -/
def MetaStruct (m : TargetsMeta) : Prop :=
  ∃ init, m.rules = init ++ [allowRule] ∧ ∀ r ∈ init, RuleStruct m.ids r

def ruleStructB (defined : List String) (r : Rule) : Bool :=
  !reserved r.name && decide (1 ≤ r.threshold) && nodupB r.principals && r.principals.all (fun p => defined.contains p)

def ruleOKB (defined : List String) (r : Rule) : Bool :=
  ruleStructB defined r && decide (r.threshold ≤ (r.principals.length : Int))

def metaInvB (m : TargetsMeta) : Bool :=
  m.rules.getLast? == some allowRule && m.rules.dropLast.all (ruleOKB m.ids)

def metaStructB (m : TargetsMeta) : Bool :=
  m.rules.getLast? == some allowRule && m.rules.dropLast.all (ruleStructB m.ids)

/-- A role of the root (root / primary rule file): threshold at least one, met by the distinct
principals listed, all of them defined. -/
def RoleOK (defined : List String) (r : Role) : Prop :=
  1 ≤ r.threshold ∧ r.threshold ≤ (r.principals.length : Int) ∧ r.principals.Nodup ∧
  ∀ p ∈ r.principals, p ∈ defined

def roleOKB (defined : List String) (r : Role) : Bool :=
  decide (1 ≤ r.threshold) && decide (r.threshold ≤ (r.principals.length : Int)) && nodupB r.principals &&
  r.principals.all (fun p => defined.contains p)

def RootMeta.ids (m : RootMeta) : List String := m.principals.map (·.id)

/-- Root metadata: both roles (when present) are well formed, threshold global rules have a
threshold of at least one, and global rule names are unique. -/
def RootInv (m : RootMeta) : Prop :=
  (∀ r, m.rootRole = some r → RoleOK m.ids r) ∧ (∀ r, m.targetsRole = some r → RoleOK m.ids r) ∧
  (∀ g ∈ m.globalRules, g.kind = .threshold → 1 ≤ g.threshold) ∧ (m.globalRules.map (·.name)).Nodup

def rootInvB (m : RootMeta) : Bool :=
  (match m.rootRole with | none => true | some r => roleOKB m.ids r) &&
  (match m.targetsRole with | none => true | some r => roleOKB m.ids r) &&
  m.globalRules.all (fun g => g.kind != .threshold || decide (1 ≤ g.threshold)) &&
  nodupB (m.globalRules.map (·.name))

/-- What a refused edit may touch: nothing that any query can see (rules and principals);
only the nil-ness of the principals map may change (`AddPrincipal` creates it before checking). -/
def TargetsMeta.SameContent (a b : TargetsMeta) : Prop := a.rules = b.rules ∧ a.principals = b.principals

end Gittuf.Meta
