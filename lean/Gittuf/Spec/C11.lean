/-
C11 — Global rules add constraints; they never replace or weaken delegation rules.
-/
import Gittuf.Spec.C07
namespace Gittuf
namespace World

/-- number of distinct principals of the policy that are authenticated for the change recorded by entry `i` -/
def authenticatedCount (W : World) (P : Policy) (i : Nat) : Nat :=
  match W.log[i]? with
  | none => 0
  | some e =>
    match targetCommit e with
    | none => 0
    | some tc =>
      let A := W.attBefore i
      let frm := W.fromId e.ref i
      (P.allPrincipals.filter (fun d => contributed P A e.ref frm (W.treeOf tc) e.signer d)).length

/-- every matching global rule of the state in force is met by entry `i` -/
def globalsMet (W : World) (i : Nat) : Bool :=
  match W.log[i]?, W.policyBefore i with
  | some e, some P =>
    P.root.globals.all (fun g =>
      !g.matches ("git:" ++ e.ref) ||
      (if g.isThreshold then decide (g.threshold ≤ (W.authenticatedCount P i : Int))
       else
         match W.latestFor e.ref i (unskipped := true), targetCommit e with
         | none, _ => true
         | some j, some cur =>
           (match (W.log[j]?).bind targetCommit with
            | some prev => W.knows cur prev
            | none => false)
         | some _, none => false))
  | _, _ => false

/-- the same count with the signer of a commit in place of the entry's signer -/
def authenticatedCountS (W : World) (P : Policy) (i : Nat) (signer : Option KeyId) : Nat :=
  match W.log[i]? with
  | none => 0
  | some e =>
    match targetCommit e with
    | none => 0
    | some tc =>
      let A := W.attBefore i
      let frm := W.fromId e.ref i
      (P.allPrincipals.filter (fun d => contributed P A e.ref frm (W.treeOf tc) signer d)).length

/-- every global threshold rule of the state in force that matches a file changed by a commit newly
introduced by entry `i` is met by the principals authenticated for that commit — whether or not a
delegation rule protects any file -/
def fileGlobalsMet (W : World) (i : Nat) : Bool :=
  match W.log[i]?, W.policyBefore i with
  | some e, some P =>
    match targetCommit e with
    | none => false
    | some tc =>
      (W.commitsBetween tc (W.fromId e.ref i)).all (fun c =>
        let cs := match W.commits[c]? with | some x => x.signer | none => none
        (W.changedPaths c).all (fun path =>
          P.root.globals.all (fun g => !g.isThreshold || !g.matches ("file:" ++ path) ||
            decide (g.threshold ≤ (W.authenticatedCountS P i cs : Int)))))
  | _, _ => false

/-- C11 (additive part) for an accepted verification of `ref`: every unskipped reference entry meets
every matching global rule of the state in force before it. -/
def c11Globals (W : World) (ref : String) (first last : Nat) : Bool :=
  (W.refEntriesIn ref first last).all (fun j => W.skipped j || (W.globalsMet j && W.fileGlobalsMet j))

end World
end Gittuf
