/-
C11 — Global rules add constraints; they never replace or weaken delegation rules.
-/
import Gittuf.Spec.C07
namespace Gittuf
namespace World

/-- number of distinct principals of the policy that are authenticated for the change recorded by entry `i` -/
def authenticatedCount (W : World) (P : Policy) (i : Nat) : Nat :=
  match W.log[i]? with
  | none => 0
  | some e =>
    match targetCommit e with
    | none => 0
    | some tc =>
      let A := W.attBefore i
      let frm := W.fromId e.ref i
      (P.allPrincipals.filter (fun d => contributed P A e.ref frm (W.treeOf tc) e.signer d)).length

/-- every matching global rule of the state in force is met by entry `i` -/
def globalsMet (W : World) (i : Nat) : Bool :=
  match W.log[i]?, W.policyBefore i with
  | some e, some P =>
    P.root.globals.all (fun g =>
      !g.matches ("git:" ++ e.ref) ||
      (if g.isThreshold then decide (g.threshold ≤ (W.authenticatedCount P i : Int))
       else
         match W.latestFor e.ref i (unskipped := true), targetCommit e with
         | none, _ => true
         | some j, some cur =>
           (match (W.log[j]?).bind targetCommit with
            | some prev => W.knows cur prev
            | none => false)
         | some _, none => false))
  | _, _ => false

/-- C11 (additive part) for an accepted verification of `ref`: every unskipped reference entry meets
every matching global rule of the state in force before it. -/
def c11Globals (W : World) (ref : String) (first last : Nat) : Bool :=
  (W.refEntriesIn ref first last).all (fun j => W.skipped j || W.globalsMet j)

end World
end Gittuf
