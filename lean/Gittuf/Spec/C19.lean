/-
C19 — Mergeability predictions agree with verification of the predicted merge.
-/
import Gittuf.Spec.C07
namespace Gittuf
namespace World

/-- the key `k` belongs to a principal of a rule consulted for `git:<ref>` that has not yet been
counted for the change (ref, frm, tree) through an authorization or a code-review approval -/
def recorderEligible (W : World) (P : Policy) (A : Option AttState) (ref : String) (frm : Option Nat)
    (tree : Nat) (k : KeyId) : Bool :=
  match P.findSpecific ("git:" ++ ref) with
  | none => false
  | some vs => vs.any (fun vn => vn.v.principals.any (fun p =>
      p.keys.contains k &&
      (match P.allPrincipals.find? (·.id == p.id) with
       | some d => !contributed P A ref frm tree none d
       | none => false)))

/-- the same, restricted to the rule the prediction relied on (`rule`: the name of the rule that is
one principal short): when several rules are consulted for the branch, "a not-yet-counted principal
authorized for the branch" is a principal of THAT rule — a principal of another consulted rule with
its own threshold cannot complete it -/
def recorderEligibleFor (W : World) (P : Policy) (A : Option AttState) (ref : String) (frm : Option Nat)
    (tree : Nat) (rule : String) (k : KeyId) : Bool :=
  match P.findSpecific ("git:" ++ ref) with
  | none => false
  | some vs => vs.any (fun vn => vn.name == rule && vn.v.principals.any (fun p =>
      p.keys.contains k &&
      (match P.allPrincipals.find? (·.id == p.id) with
       | some d => !contributed P A ref frm tree none d
       | none => false)))

/-- the history after the candidate recorder records the fast-forward merge -/
def withMerge (W : World) (ref : String) (c : Nat) (signer : Option KeyId) : World :=
  { W with log := W.log ++ [{ kind := .ref, ref := ref, target := .commit c, signer := signer }] }

end World
end Gittuf
