/-
C12 — Policy ref advances only to verified descendants that verification accepts.

Declarative restatement over two observed repository states (before / after an operation): the
policy-commit graph (parent of every policy commit, its metadata), the two references and the log.
Nothing here mentions how `Apply` proceeds.  The `Bool` versions are what the driver evaluates on
the states observed on the REAL repository.  Core Lean only.
-/
import Gittuf.Model.PolicyOps
namespace Gittuf
open PState

/-- the reference agrees with its latest log entry (both absent, or the entry names the tip) -/
def RefAgrees (s : PState) (r : RefSel) : Prop :=
  match s.getRef r, s.latestTarget r.name with
  | none, none => True
  | some t, some e => e = .policy t
  | _, _ => False

def refAgreesB (s : PState) (r : RefSel) : Bool :=
  match s.getRef r, s.latestTarget r.name with
  | none, none => true
  | some t, some e => e == .policy t
  | _, _ => false

/-- log entries recorded by the operation -/
def gained (before after : PState) : List LogEntry := after.W.log.drop before.W.log.length

def policyEntriesOf (l : List LogEntry) : List LogEntry := l.filter (fun e => e.ref == policyRef)

/-- the policy-commit graph only grows -/
def GraphExtends (before after : PState) : Prop :=
  before.W.policies <+: after.W.policies ∧ before.parent <+: after.parent ∧ before.W.log <+: after.W.log

def graphExtendsB (before after : PState) : Bool :=
  before.W.policies.isPrefixOf after.W.policies && before.parent.isPrefixOf after.parent &&
  before.W.log.isPrefixOf after.W.log

/-- staging already is a fast-forward of the applied policy: nothing for reconciliation to do -/
def stagingAhead (s : PState) : Bool :=
  match s.polRef, s.stgRef with
  | none, some _ => true
  | some p, some t => s.knows t p
  | _, none => false

/-- What a successful Apply may do: publish a staged state `t` that descends from the old policy tip
and passes `State.Verify`, recording exactly one policy entry, naming `t`.  The published state is
the old staging tip whenever staging was a fast-forward of the policy (otherwise `ReconcileStaging`
first rebuilt staging on top of the policy tip). -/
structure ApplyOK (before after : PState) : Prop where
  grows    : before.W.log <+: after.W.log
  tip      : ∃ t, after.polRef = some t ∧ after.stgRef = some t ∧
               (∀ o, before.polRef = some o → after.knows t o = true) ∧
               (∃ P, after.content t = some P ∧ P.verify = .ok ()) ∧
               policyEntriesOf (gained before after) = [refEntry policyRef t] ∧
               (stagingAhead before = true → before.stgRef = some t)

def applyOKB (before after : PState) : Bool :=
  before.W.log.isPrefixOf after.W.log &&
  (match after.polRef with
   | none => false
   | some t =>
     after.stgRef == some t &&
     (match before.polRef with | some o => after.knows t o | none => true) &&
     (match after.content t with | some P => P.verify == .ok () | none => false) &&
     policyEntriesOf (gained before after) == [refEntry policyRef t] &&
     (!stagingAhead before || before.stgRef == some t))

/-- same references, same log, same policy commits -/
def Unchanged (before after : PState) : Prop :=
  after.polRef = before.polRef ∧ after.stgRef = before.stgRef ∧ after.W.log = before.W.log ∧
  after.W.policies = before.W.policies ∧ after.parent = before.parent

def unchangedB (before after : PState) : Bool :=
  after.polRef == before.polRef && after.stgRef == before.stgRef && after.W.log == before.W.log &&
  after.W.policies == before.W.policies && after.parent == before.parent

/-- a refused Apply never touches the policy reference nor records a policy entry -/
def PolicyUntouched (before after : PState) : Prop :=
  after.polRef = before.polRef ∧ before.W.log <+: after.W.log ∧ policyEntriesOf (gained before after) = []

def policyUntouchedB (before after : PState) : Bool :=
  after.polRef == before.polRef && before.W.log.isPrefixOf after.W.log && (policyEntriesOf (gained before after)).isEmpty

/-- Discard: staging is put back on the applied policy (deleted when there is none), nothing else moves -/
def DiscardRestores (before after : PState) : Prop :=
  after.stgRef = before.polRef ∧ after.polRef = before.polRef ∧ after.W.log = before.W.log

def discardRestoresB (before after : PState) : Bool :=
  after.stgRef == before.polRef && after.polRef == before.polRef && after.W.log == before.W.log

/-- the signer is a root principal of the state being edited (the tip of the staging reference) -/
def isRootSigner (s : PState) (signer : KeyId) : Bool :=
  match s.stgRef.bind s.content with
  | some P => P.root.rootKeys.contains signer
  | none => false

/-- later verification accepts the latest policy entry: `LoadState` (full chain from the first
policy entry, `VerifyNewState` between successive states, `Verify` of the last) succeeds -/
def policyLoads (s : PState) : Bool :=
  match s.latestIdx policyRef with
  | none => true
  | some p => (s.W.loadState p).toBool

/-- Every state Apply publishes is accepted by later verification, provided what was published
before was (a log whose policy entries were already rejected cannot be repaired by Apply). -/
def PublishedVerifies (before after : PState) : Prop :=
  policyLoads before = true → policyLoads after = true

def publishedVerifiesB (before after : PState) : Bool := !policyLoads before || policyLoads after

end Gittuf
