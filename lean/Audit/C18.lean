import Gittuf.Props.C18
#print axioms Gittuf.prop_subtree
#print axioms Gittuf.prop_frame
#print axioms Gittuf.under_self
#print axioms Gittuf.under_sibling
#print axioms Gittuf.prop_idempotent
#print axioms Gittuf.prop_idempotent_n
#print axioms Gittuf.prop_entry
#print axioms Gittuf.F15_witness
#print axioms Gittuf.F15_repaired
#print axioms Gittuf.F8_F16_witness
