import Gittuf.Props.C12
#print axioms Gittuf.C12_apply_refuses
#print axioms Gittuf.C12_discard_restores
#print axioms Gittuf.C12_root_edit_refused
#print axioms Gittuf.C12_root_edit_unauthorized
#print axioms Gittuf.reconcile_spec
#print axioms Gittuf.applyChecks_spec
#print axioms Gittuf.C12_apply_ok_partial
#print axioms Gittuf.reconcile_staging_consistent
#print axioms Gittuf.C12_apply_ok
#print axioms Gittuf.C12_refused_apply_policy_untouched
#print axioms Gittuf.C12_published_chain_partial
#print axioms Gittuf.C12_F9_witness
#print axioms Gittuf.C12_F9_statement_false
#print axioms Gittuf.C12_F9_repaired
#print axioms Gittuf.C12_all_sequences
