import Gittuf.Props.C16
#print axioms Gittuf.Script.fault_all_partial
#print axioms Gittuf.Script.fault_established_code
#print axioms Gittuf.Script.crash_chain_partial
#print axioms Gittuf.Script.fault_F13_witness
#print axioms Gittuf.Script.fault_F50_witness
#print axioms Gittuf.Script.fault_F51_witness
