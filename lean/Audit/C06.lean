import Gittuf.Props.C06
#print axioms Gittuf.Walk.C06_walk_terminates
#print axioms Gittuf.Walk.C06_walk_sound_reach
#print axioms Gittuf.Walk.C06_walk_sound
#print axioms Gittuf.Walk.C06_walk_complete
#print axioms Gittuf.Walk.C06_allow_rule_never_consulted
#print axioms Gittuf.Walk.C06_unprotected_iff
#print axioms Gittuf.Walk.C06_walk_exact
#print axioms Gittuf.Walk.C06_own_principals_partial
