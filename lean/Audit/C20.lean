import Gittuf.Props.C20
#print axioms Gittuf.C20_safeB_sound
#print axioms Gittuf.C20_reach_closed
#print axioms Gittuf.C20_script_holds_only_safe
#print axioms Gittuf.C20_closure_safe_snapshot
#print axioms Gittuf.C20_snapshot_safe
#print axioms Gittuf.C20_snapshot_scripts_safe
#print axioms Gittuf.C20_tables_protected_partial
#print axioms Gittuf.C20_F30_witness
#print axioms Gittuf.C20_timeout_partial
#print axioms Gittuf.C20_completed_time
#print axioms Gittuf.C20_long_script_is_stopped
#print axioms Gittuf.C20_not_stopped_by_deadline
#print axioms Gittuf.C20_non_number_fails
#print axioms Gittuf.C20_hooks_run_assigned
#print axioms Gittuf.C20_unknown_signer_runs_nothing
