import Gittuf.Props.C04
import Gittuf.Props.C04b
#print axioms Gittuf.RSL.C04_step_branch
#print axioms Gittuf.RSL.C04_step_garbage
#print axioms Gittuf.RSL.C04_step_number
#print axioms Gittuf.RSL.C04_step_ok
#print axioms Gittuf.RSL.C04_walk_fail_closed
#print axioms Gittuf.RSL.C04_latest_refines_general
#print axioms Gittuf.RSL.C04_latest_refines
#print axioms Gittuf.RSL.C04_latest_bad_tip
#print axioms Gittuf.RSL.C04_latest_refines_asis_partial
#print axioms Gittuf.RSL.C04_first_refines
#print axioms Gittuf.RSL.C04_first_fail_closed
#print axioms Gittuf.RSL.C04_range_refines
#print axioms Gittuf.RSL.C04_range_refines_wf
#print axioms Gittuf.RSL.C04_nonGittufParent_refines
#print axioms Gittuf.RSL.C04_forCommit_refines
#print axioms Gittuf.RSL.C04_F5_witness
#print axioms Gittuf.RSL.C04_F5_witness2
#print axioms Gittuf.RSL.C04_F24_witness
#print axioms Gittuf.RSL.C04_latest_asis_false
#print axioms Gittuf.RSL.readyLog_run
#print axioms Gittuf.RSL.C04_latest_refines_reachable
#print axioms Gittuf.RSL.C04_first_refines_reachable
