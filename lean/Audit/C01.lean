import Gittuf.Props.C01
#print axioms Gittuf.World.C01_tip_full
#print axioms Gittuf.World.C01_tip_latest
#print axioms Gittuf.World.C01_no_entry
