import Gittuf.Props.C01
import Gittuf.Props.C02b
#print axioms Gittuf.World.C01_tip_full
#print axioms Gittuf.World.C01_tip_latest
#print axioms Gittuf.World.C01_no_entry
#print axioms Gittuf.World.F1_witness
#print axioms Gittuf.World.F2_witness
#print axioms Gittuf.World.F3_witness
#print axioms Gittuf.World.good_history_verifies
#print axioms Gittuf.World.relLoop_sound_gen
#print axioms Gittuf.World.lookForFix_partition
#print axioms Gittuf.World.C01_relative_sound
#print axioms Gittuf.World.C01_full_sound
#print axioms Gittuf.World.go_accept_rule_met
#print axioms Gittuf.World.verifyObject_accept
#print axioms Gittuf.World.C01_entry_accept
#print axioms Gittuf.World.ghApprovers_sound
#print axioms Gittuf.World.ruleMet_count
#print axioms Gittuf.World.C01_entry_authorized_git
#print axioms Gittuf.World.relLoop_exact_gen
#print axioms Gittuf.World.range_SInv
#print axioms Gittuf.World.C01_relative_exact
#print axioms Gittuf.World.C01_full_exact
#print axioms Gittuf.World.polInForce_eq_policyBefore
#print axioms Gittuf.World.attInForce_eq_attBefore
#print axioms Gittuf.World.C01_policy_in_force_is_policyBefore
#print axioms Gittuf.World.C01_att_in_force_is_attBefore
#print axioms Gittuf.World.F63_witness
