import Gittuf.Props.C09
#print axioms Gittuf.World.C09_auth_exact
#print axioms Gittuf.World.C09_approvals_auth
#print axioms Gittuf.World.C09_approvers_nodup
#print axioms Gittuf.World.C09_approvers_sound
