import Gittuf.Props.C08
import Gittuf.Proofs.CacheRefine
import Gittuf.Proofs.CacheLoop
#print axioms Gittuf.Cache.C08_insert_mem
#print axioms Gittuf.Cache.C08_insert_sorted
#print axioms Gittuf.Cache.C08_findFor_greatest
#print axioms Gittuf.World.C08_populate_policy
#print axioms Gittuf.World.C08_populate_sorted
#print axioms Gittuf.World.C08_F6_witness
#print axioms Gittuf.World.C08_F29_witness
#print axioms Gittuf.World.C08_lookup_refines
#print axioms Gittuf.World.relLoopC_verdict
#print axioms Gittuf.Cache.C08_inserts_sorted
#print axioms Gittuf.Cache.C08_lookup_after_inserts
#print axioms Gittuf.Cache.C08_inserts_order_independent
