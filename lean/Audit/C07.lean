import Gittuf.Props.C07
import Gittuf.Proofs.Loop
#print axioms Gittuf.World.C07_fix_is_unskipped_treesame
#print axioms Gittuf.World.C07_intermediates_skipped
#print axioms Gittuf.World.lookForFix_partition
#print axioms Gittuf.World.lookForFix_sub
#print axioms Gittuf.World.relLoop_sound_gen
