import Gittuf.Props.C07
#print axioms Gittuf.World.C07_fix_is_unskipped_treesame
#print axioms Gittuf.World.C07_intermediates_skipped
