import Gittuf.Props.C07
import Gittuf.Proofs.Loop
#print axioms Gittuf.World.C07_fix_is_unskipped_treesame
#print axioms Gittuf.World.C07_intermediates_skipped
#print axioms Gittuf.World.lookForFix_partition
#print axioms Gittuf.World.lookForFix_sub
#print axioms Gittuf.World.relLoop_sound_gen
#print axioms Gittuf.World.lookForFix_shape
#print axioms Gittuf.World.latestFor_skip_run
#print axioms Gittuf.World.relLoop_recovery_gen
#print axioms Gittuf.World.range_QInv
#print axioms Gittuf.World.C07_relative_tolerated
#print axioms Gittuf.World.tolerated_of_TolWith
#print axioms Gittuf.World.C07_full_tolerated
