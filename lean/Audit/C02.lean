import Gittuf.Props.C02
import Gittuf.Props.C02b
#print axioms Gittuf.C02_newState_root_signed
#print axioms Gittuf.C02_newState_versions
#print axioms Gittuf.C02_chain_sound
#print axioms Gittuf.World.F4_witness
#print axioms Gittuf.C02_verify_primary_signed
#print axioms Gittuf.verifyDelegations_reached
#print axioms Gittuf.C02_verify_delegations
#print axioms Gittuf.World.relLoop_chain_gen
#print axioms Gittuf.World.C02_relative_chain
#print axioms Gittuf.World.chainStates_exact
#print axioms Gittuf.World.loadState_chain
#print axioms Gittuf.World.initialPolicy_records
