import Gittuf.Props.C05
import Gittuf.Proofs.SigComplete
#print axioms Gittuf.C05_sound
#print axioms Gittuf.C05_invalid
#print axioms Gittuf.C05_accept_satisfies
#print axioms Gittuf.C05_unmet_credited
#print axioms Gittuf.C05_complete_env
