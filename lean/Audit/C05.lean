import Gittuf.Props.C05
import Gittuf.Proofs.SigComplete
import Gittuf.Proofs.SigCompleteGit
#print axioms Gittuf.C05_sound
#print axioms Gittuf.C05_invalid
#print axioms Gittuf.C05_accept_satisfies
#print axioms Gittuf.C05_unmet_credited
#print axioms Gittuf.C05_complete_env
#print axioms Gittuf.C05_complete
#print axioms Gittuf.disjointKeys_of_B
#print axioms Gittuf.C05_git_signature_monotone
