import Gittuf.Props.C10
import Gittuf.Props.C10b
#print axioms Gittuf.paths_roundtrip_z
#print axioms Gittuf.changed_verbatim_z
#print axioms Gittuf.paths_verbatim_z
#print axioms Gittuf.paths_roundtrip_partial
#print axioms Gittuf.changed_one_partial
#print axioms Gittuf.paths_witness
#print axioms Gittuf.paths_not_verbatim_as_coded
#print axioms Gittuf.World.verifyPaths_all
#print axioms Gittuf.World.C10_all_paths
#print axioms Gittuf.World.C10_entry_checks_all_commits
#print axioms Gittuf.World.commitsBetween_spec
