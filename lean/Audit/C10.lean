import Gittuf.Props.C10
#print axioms Gittuf.paths_roundtrip_z
#print axioms Gittuf.changed_verbatim_z
#print axioms Gittuf.paths_verbatim_z
#print axioms Gittuf.paths_roundtrip_partial
#print axioms Gittuf.changed_one_partial
#print axioms Gittuf.paths_witness
#print axioms Gittuf.paths_not_verbatim_as_coded
