import Gittuf.Props.C14
#print axioms Gittuf.C14_parse_render_ref
#print axioms Gittuf.C14_parse_render_prop
#print axioms Gittuf.C14_fields_ref
#print axioms Gittuf.C14_fields_prop
#print axioms Gittuf.C14_F11_witness
#print axioms Gittuf.C14_parse_render_ann_partial
#print axioms Gittuf.C14_parse_canonical_ref_partial
#print axioms Gittuf.C14_parse_render_any
#print axioms Gittuf.C14_render_injective
#print axioms Gittuf.C14_ref_text_ne_prop_text
