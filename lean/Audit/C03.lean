import Gittuf.Props.C03
#print axioms Gittuf.RSL.C03_init
#print axioms Gittuf.RSL.C03_chain_shape
#print axioms Gittuf.RSL.C03_failed_unchanged
#print axioms Gittuf.RSL.C03_step_extends
#print axioms Gittuf.RSL.C03_step_exact
#print axioms Gittuf.RSL.C03_step_inv
#print axioms Gittuf.RSL.C03_annotate_refused
#print axioms Gittuf.RSL.C03_annotate_accepted
#print axioms Gittuf.RSL.C03_run_inv
#print axioms Gittuf.RSL.C03_numbered_admissible
#print axioms Gittuf.RSL.C03_skipAll_shape
#print axioms Gittuf.RSL.C03_skipAll_inv
#print axioms Gittuf.RSL.C03_step_annBackward
#print axioms Gittuf.RSL.C03_F25
#print axioms Gittuf.RSL.C03_run_extends
#print axioms Gittuf.RSL.C03_run_prefix_extends
