import Gittuf.Props.C19
#print axioms Gittuf.World.C19_need_means_one_short
#print axioms Gittuf.World.C19_no_need_means_met
#print axioms Gittuf.World.C19_no_need_is_verification
#print axioms Gittuf.World.C19_refusal_is_refusal
#print axioms Gittuf.World.C19_verification_implies_possible
