import Gittuf.Props.C19
#print axioms Gittuf.World.C19_need_means_one_short
#print axioms Gittuf.World.C19_no_need_means_met
