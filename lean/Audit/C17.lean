import Gittuf.Props.C17
#print axioms Gittuf.Script.conc_linear
#print axioms Gittuf.Script.conc_linear_prefix
#print axioms Gittuf.Script.disc_recordRef
#print axioms Gittuf.Script.disc_annotate
#print axioms Gittuf.Script.conc_numbers_witness
#print axioms Gittuf.Script.conc_numbers_partial
#print axioms Gittuf.Script.conc_exactly_once_partial
