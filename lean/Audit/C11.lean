import Gittuf.Props.C11
import Gittuf.Props.C11b
#print axioms Gittuf.World.C11_threshold_enforced
#print axioms Gittuf.World.C11_ff_enforced
#print axioms Gittuf.World.C11_exhaustive_adds_only
#print axioms Gittuf.World.verifyObject_mono
#print axioms Gittuf.World.C11_entry_monotone
#print axioms Gittuf.World.C11_entry_monotone_B
#print axioms Gittuf.walkSane_of_B
#print axioms Gittuf.World.F64_witness
#print axioms Gittuf.World.F65_witness
