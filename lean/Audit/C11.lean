import Gittuf.Props.C11
#print axioms Gittuf.World.C11_threshold_enforced
#print axioms Gittuf.World.C11_ff_enforced
#print axioms Gittuf.World.C11_exhaustive_adds_only
