import Gittuf.Props.C13
#print axioms Gittuf.C13_new_wellformed
#print axioms Gittuf.C13_metaInvB_iff
#print axioms Gittuf.C13_metaStructB_iff
#print axioms Gittuf.C13_rootInvB_iff
#print axioms Gittuf.C13_struct_preserved
#print axioms Gittuf.C13_inv_preserved_partial
#print axioms Gittuf.C13_F10_witness
#print axioms Gittuf.C13_F10_witness_update
#print axioms Gittuf.C13_refused_unchanged
#print axioms Gittuf.C13_no_panic
#print axioms Gittuf.C13_run_struct
#print axioms Gittuf.C13_run_struct_from_new
#print axioms Gittuf.C13_run_inv_partial
#print axioms Gittuf.C13_root_inv_preserved
#print axioms Gittuf.C13_root_run_inv
#print axioms Gittuf.C13_root_refused_unchanged
