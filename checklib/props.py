"""Per-property configuration of ./check."""

COMMON_TB = [
    "symbolic cryptography: a signature is (key, digest); digests / git object ids injective",
    "git binary, go-git, encoding/json, sshsig: exercised by the correspondence run, not verified",
]

WORLD_RULE = ("random histories on a real repository: policy states (root key, rule file with Key/Person principals, "
              "thresholds 1..2, optional delegation level, file rules, global rules), pushes signed by authorized / other / "
              "outsider / no key (new commits, force pushes, tree-same fixes), authorizations, skip annotations covering 1-2 "
              "entries, propagation entries, policy rotations; each world is verified with the real PolicyVerifier in full / "
              "latest-only / from-entry mode for every reference and compared with the Lean model; the declarative spec is "
              "evaluated on the implementation's verdicts. non-trivial = some query accepted or rejected for a policy reason; "
              "distinct by hash of the abstract world.")

PROPS = {
    "C01": {
        "test": "TestC01",
        "lean_modules": ["Gittuf.Props.C01", "Gittuf.Props.C02b"],
        "n": {"quick": 24, "thorough": 96},
        "min_per_shard": 6,
        "rule": WORLD_RULE,
        "trusted_base": COMMON_TB,
        "assumptions": ["principals of one policy share no keys (results are then independent of Go map order)",
                        "tags, controller repositories, GPG/Sigstore keys are not generated"],
    },
    "C05": {
        "test": "TestC05",
        "lean_modules": ["Gittuf.Props.C05", "Gittuf.Proofs.SigComplete", "Gittuf.Proofs.SigCompleteGit"],
        "n": {"quick": 1200, "thorough": 12000},
        "rule": "random rules over <=4 principals (Key / Person with 1-2 keys, shared or disjoint keys), thresholds 0..5, "
                "Git signer in {trusted, untrusted, unsigned, no object}, envelopes with <=5 signatures incl. untrusted keys, "
                "lifted signatures, wrong/empty key-id hints; 12% through the exhaustive verifier. The real "
                "SignatureVerifier.Verify (verifier from State.FindVerifiersForPath) is compared with the model under every "
                "principal/key iteration order; non-trivial = implementation result ok or unmet (not invalid-verifier); distinct by input hash.",
        "trusted_base": COMMON_TB,
        "assumptions": ["only SSH (ed25519) keys are generated; GPG / Sigstore verification paths are not modelled"],
    },
    "C13": {
        "test": "TestC13",
        "lean_modules": ["Gittuf.Props.C13"],
        "n": {"quick": 800, "thorough": 16000},
        "min_per_shard": 100,
        "rule": "random sequences of 5-25 edits on real tufv01/tufv02 objects (60% rule files, 40% roots; 30% legacy schema): "
                "AddRule/UpdateRule/RemoveRule/ReorderRules/Add-/Update-/RemovePrincipal resp. Add-/Delete- root and primary-rule-file "
                "principals, threshold updates, global rules, propagation directives (modelled) and hooks, controller/network, version, "
                "location edits (unmodelled, judged for refused=>unchanged and reload only); arguments from small pools incl. undefined and "
                "repeated principal ids, thresholds -1..5, reserved / allow-rule / empty names, nil and foreign principal types, invalid hook "
                "stages. After every edit the error class and a canonical dump of the real object are compared with the model and the "
                "invariant is evaluated on the dump; finally the object is marshalled/unmarshalled with encoding/json and (legacy) migrated "
                "to v02 and the dumps compared. The witnesses of the fixed findings F10, F20, F21, F22 (corpus/C13) are replayed first on "
                "every run and must show the repaired behaviour (AddRule/UpdateRule with repeated ids refused; version survives reload; "
                "refused AddHook leaves the root unchanged; RemoveHook with an invalid stage refused). "
                "non-trivial = at least one accepted modelled edit changed the object; distinct by input hash.",
        "trusted_base": COMMON_TB,
        "assumptions": ["uniqueness of rule names across rule files (repository API layer) is not covered",
                        "Matches() is compared at the level of the pattern lists, fnmatch itself is not modelled",
                        "GitHub-app entries are not edited"],
    },
    "C06": {
        "test": "TestC06",
        "lean_modules": ["Gittuf.Props.C06"],
        "n": {"quick": 600, "thorough": 9000},
        "rule": "random delegation graphs of <=4 rule files x <=3 rules (+ trailing allow rule, 6% of files without it); patterns from literal / prefix-glob / '?' / catch-all forms over git: and file:; any terminating flags; half with unique rule names (forests, plus a rule named 'targets'), half with free names (cycles, self loops, diamonds); per-file principal definitions, 15% with the same person id defined with different keys in different files, 6% with ids a rule's own file does not define; 10 paths per graph covering match / no-match of every pattern. Each case = one graph x all paths: the real State.FindVerifiersForPath on a State holding only the metadata envelopes, and for 20% also through State.Commit + LoadCurrentState(BypassRSL) (the loader refuses duplicated names: ErrDuplicatedRuleName, predicted by the model). Compared: exact ordered list of (name, threshold, principals with keys) per path; non-trivial = some path has a verifier and the policy has a delegated file; distinct by input hash.",
        "trusted_base": COMMON_TB,
        "assumptions": ["bracket classes of fnmatch are not modelled and not generated",
                        "verifier principals are read from the unexported field by reflection in the harness"],
    },
    "C14": {
        "test": "TestC14",
        "lean_modules": ["Gittuf.Props.C14"],
        "n": {"quick": 1500, "thorough": 15000},
        "rule": "22% entries recorded through the real API (NewReferenceEntry / NewAnnotationEntry / NewPropagationEntry + Commit or "
                "CommitWithoutNumber on scratch repositories; UTF-8 reference names git accepts incl. Unicode blanks inside and, rarely, at the "
                "ends (F11); 40/64-hex ids; 1..9 referenced entries; messages with PEM markers, CR/LF, NUL, empty, 45..500 bytes; upstream "
                "locations with ':'; numbers 0, 1, 2^63, 2^64-1) read back with GetCommitMessage + ParseEntryText; 78% texts given to "
                "ParseEntryText: valid texts, 1-3 structured mutations (drop / duplicate / move / swap / rename / foreign fields, case, CR/LF, "
                "Unicode and near-Unicode blanks at every field end, number and id games, PEM games), byte mutations, token and byte fuzz. "
                "Panics are recovered per case and are violations. Compared: ok/error class, error kind, all parsed fields; the model "
                "renderer is compared with the stored commit message. non-trivial = recorded, accepted, or rejected after a valid header; "
                "distinct by input hash.",
        "trusted_base": COMMON_TB + ["git commit-tree / git show store and return the commit message unchanged for the generated (UTF-8, NUL-free) texts: checked on every recorded case"],
        "assumptions": ["annotation round trip assumes the modelled encoding/pem + base64 contract PemRoundTrip (decidable; evaluated by the driver on every recorded annotation)",
                        "recorded reference names and upstream locations are valid UTF-8 without line breaks (git commit-tree rewrites other bytes as Latin-1; see corpus/C14/candidates)"],
    },
    "C07": {
        "test": "TestC07",
        "lean_modules": ["Gittuf.Props.C07"],
        "n": {"quick": 48, "thorough": 192},
        "min_per_shard": 8,
        "rule": "recovery patterns on a real repository: 2-8 pushes over one or two protected references, each independently valid or "
                "violating (signed by a key outside the rule), tree-new or tree-same as an earlier entry; structured episodes "
                "good/bad+/revoke(possibly incomplete, possibly recorded after the fix)/fix(possibly wrong tree, unauthorized or itself "
                "revoked) and fully random placements; one annotation may cover several entries; policy and attestation entries interleaved. "
                "Verified in full / from-entry / latest-only mode with the real verifier, compared with the Lean model; the declarative "
                "'tolerated' predicate is evaluated on every accepted range. non-trivial and distinct as for C01.",
        "trusted_base": COMMON_TB,
        "assumptions": ["principals share no keys; tags are not generated"],
    },
    "C02": {
        "test": "TestC02",
        "lean_modules": ["Gittuf.Props.C02", "Gittuf.Props.C02b"],
        "n": {"quick": 40, "thorough": 160},
        "min_per_shard": 10,
        "rule": "chains of 1-5 policy states on a real repository; each successor is obtained from its predecessor by one of: valid bump, "
                "valid re-key, root rotation signed by old / new / both / predecessor's keys with threshold 1 or 2, forged root signature, "
                "old root envelope kept with a forged primary rule file, unsigned primary file, root / primary version rollback, "
                "delegated file added (signed by the delegating rule's principals or by an outsider), delegated file removed, dangling "
                "delegated file, primary file dropped; pushes signed by the principal the state in force names are placed before, "
                "between and after the policy entries; full, latest-only and from-entry verification are run with the real verifier, "
                "compared with the Lean model, and the declarative chain conditions are evaluated on every accepted verification.",
        "trusted_base": COMMON_TB,
        "assumptions": ["controller repositories and caller-pinned initial root principals are not generated"],
    },
    "C11": {
        "test": "TestC11",
        "lean_modules": ["Gittuf.Props.C11", "Gittuf.Props.C11b"],
        "n": {"quick": 16, "thorough": 64},
        "min_per_shard": 4,
        "rule": "histories as for C01 under policies that combine delegation rules with 0-2 global rules (threshold 1..3 over the verified "
                "reference, over all branches, over an unrelated reference; block-force-pushes over all branches or one branch); every "
                "history is rebuilt on a second repository with all global rules removed and verified again with the real verifier "
                "(monotonicity); the additive part (enough distinct authenticated principals, descent from the previous unskipped "
                "state) is evaluated declaratively on every accepted verification; the Lean model must reproduce every verdict.",
        "trusted_base": COMMON_TB,
        "assumptions": ["controller-declared global rules are not generated (only the repository's own root)"],
    },
    "C09": {
        "test": "TestC09",
        "lean_modules": ["Gittuf.Props.C09"],
        "n": {"quick": 40, "thorough": 160},
        "min_per_shard": 6,
        "rule": "1-3 pushes to a branch protected by a threshold 1..3 rule over Person/Key principals; 0-2 GitHub apps (trusted or not); "
                "attestation states with reference authorizations and code-review approvals for the exact change or another change, "
                "stored at the matching path or relocated (blobs written directly into the tree), signed by subsets of rule principals, "
                "developers outside the rule, an outsider, the app key or a foreign key, with approvers / dismissed approvers / unknown "
                "identities, recorded before or after the entry; verified with the real verifier (full, latest-only), compared with "
                "the Lean model; the declarative per-entry authorization (statement names exactly the change; once per principal; "
                "state recorded before the entry) is evaluated on every accepted range.",
        "trusted_base": COMMON_TB,
        "assumptions": ["tag approvals and v0.1 authorizations are not generated"],
    },
    "C04": {
        "test": "TestC04",
        "lean_modules": ["Gittuf.Props.C04", "Gittuf.Props.C04b"],
        "n": {"quick": 120, "thorough": 480},
        "min_per_shard": 10,
        "rule": "one case = one real RSL (<=12 entries, 8%: <=30; thorough also <=60) built through pkg/rsl (Commit / CommitWithoutNumber) or crafted commit by commit, "
                "over refs {main, feature, gittuf/policy, gittuf/policy-staging, gittuf/attestations}, reference / propagation / annotation entries "
                "(1-2 targets, skip flag, message), 25% with a legacy unnumbered prefix; 35% carry one corruption made with plain git before the first read "
                "(extra parent, number gap, duplicate, zero, garbage message). 20 queries per log: GetLatestReferenceUpdaterEntry with random option "
                "combinations and before/until bounds by id and by number taken from the log (incl. before = until, both-set, out-of-range), "
                "GetFirstEntry / GetFirstReferenceUpdaterEntryForRef, GetNonGittufParentReferenceUpdaterEntryForEntry, GetFirstReferenceUpdaterEntryForCommit, "
                "GetReferenceUpdaterEntriesInRange[ForRef], GetEntry, GetParentForEntry. Every answer (class, entry index, annotation indices) is compared with the "
                "Lean model and judged against the list spec on the well-formed prefix; non-trivial = some query returned an entry or the log is tampered; distinct by input hash.",
        "trusted_base": COMMON_TB + ["entry messages written by createCommitMessage parse back to the same entry (C14's subject); commit ids are symbolic"],
        "assumptions": ["unsigned RSL commits; one process-wide rsl cache shared by all logs of a run (keyed by content hash)"],
    },
    "C03": {
        "test": "TestC03",
        "lean_modules": ["Gittuf.Props.C03"],
        "n": {"quick": 150, "thorough": 600},
        "min_per_shard": 10,
        "rule": "one case = a sequence of 1..12 (10%: ..30; thorough 3%: ..120) recording operations through the real pkg/rsl API on a real repository: "
                "reference / propagation / annotation entries with Commit, 30% starting with 1-4 CommitWithoutNumber (legacy) operations, annotations naming "
                "1-3 earlier commits, 16% naming a commit that is not an entry or a missing object, 3% naming nothing, unusual ref names, and SkipAllInvalidReferenceEntriesForRef on refs recorded at least twice (targets on diverging "
                "branches, so about half of them write a skip annotation); 30% of the sequences also call policy State.Commit (staging, with RSL entry), policy.Apply and "
                "Attestations.Commit, whose decision to record is taken as observed and whose recorded entry must be one reference entry for their ref. After every "
                "operation the chain is re-read with git cat-file by an independent reader (not gittuf's) and compared with the model's chain; ChainInv / "
                "Extends / exactly-one-appended / refused-when-not-an-entry are evaluated on the implementation's chain. non-trivial = final chain >= 2 entries.",
        "trusted_base": COMMON_TB + ["entry messages written by createCommitMessage parse back to the same entry (C14's subject); commit ids are symbolic and fresh"],
        "assumptions": ["single writer (concurrency is C17), no injected faults (C16); the policy layer's own conditions for staging/apply "
                        "(signatures, fast-forward) are not modelled: only what these calls do to the RSL is compared"],
    },
    "C19": {
        "test": "TestC19",
        "lean_modules": ["Gittuf.Props.C19"],
        "n": {"quick": 10, "thorough": 40},
        "min_per_shard": 3,
        "rule": "policies with one or two rules consulted for the target branch (thresholds 1..3 over Person principals), optional "
                "file rule, optional global rule, optional trusted app; a valid base state of the branch; a feature history of 1-3 "
                "commits signed by various principals touching protected / unprotected paths; authorizations for the merge signed by any "
                "subset (incl. the empty subset and an outsider) and code-review approvals. The real VerifyMergeable is called, then the "
                "fast-forward merge is recorded by each of 7 candidate recorders (unsigned, outsider, every developer) on the same "
                "repository, verified with the real VerifyRefFull and rolled back; prediction and every verdict are compared with the "
                "Lean model; the prediction/verdict agreement demanded by the property is evaluated on the implementation's answers.",
        "trusted_base": COMMON_TB,
        "assumptions": ["only fast-forward merges are recorded (merge commits carrying the predicted tree, and real three-way merges, are not generated)"],
    },
    "C10": {
        "test": "TestC10",
        "lean_modules": ["Gittuf.Props.C10", "Gittuf.Props.C10b"],
        "n": {"quick": 64, "thorough": 320},
        "min_per_shard": 16,
        "rule": "layer (a), the path codec, only (kind \"paths\"; the verification layer is C10b): per case one commit on a real repository - "
                "root commit (30%), linear child modifying / adding / deleting paths (40%), merge commit with two parents incl. tree-same "
                "as first / last parent (30%) - i.e. 1-3 trees (quick: about 150 trees) of 1-7 leaves, 1-3 components deep, components from an "
                "alphabet of safe names that are prefixes of one another (fo, foo, foobar, foo.txt) and odd names: blanks inside / leading / "
                "trailing / only, tab, 0x01, 0x7f, ESC, BEL..CR, double quote, backslash, literal \\303\\251, e-acute, CJK, invalid UTF-8, "
                "trailing NBSP, glob characters (* ? [ { **), '-', '#', quote, '$', '~', ':'; modes 100644 / 100755 / 120000. Objects are "
                "written by the harness itself as loose objects (never through gitinterface's writers; git fsck checks them at the end); the "
                "truth is git's own NUL-delimited output (ls-tree -r -t -z, diff-tree -r -z --name-only). The real "
                "GetFilePathsChangedByCommit, GetAllFilesInTree and GetEntriesInTree (root tree and one subtree) are compared with the "
                "model (git's C-quoting renderer composed with gittuf's parsers as coded) and judged against the truth (verbatim). "
                "non-trivial = some name of the case needs quoting or contains a blank; distinct by input hash.",
        "trusted_base": COMMON_TB + ["git's quoting rule (quote.c, default core.quotePath) is modelled by hand and exercised on every case through the real git binary"],
        "assumptions": ["path components are never '.', '..', '.git' or empty and contain no NUL or newline (the statement excludes newline)",
                        "a root commit with an empty tree is not generated (the reader returns one empty path for it)"],
    },
    "C18": {
        "test": "TestC18",
        "lean_modules": ["Gittuf.Props.C18"],
        "n": {"quick": 48, "thorough": 192},
        "min_per_shard": 8,
        "timeout": "120m",
        "rule": "per case a real bare upstream and a real bare downstream repository (shared per shard, references reset, blob contents unique "
                "per case): 1-3 upstream commits with generated trees (nested directories, names that are prefixes of one another, odd names "
                "in 40% of the cases, modes 100755 / 120000 in 30%), an upstream RSL recorded through the real rsl API with the states "
                "{no entry, entries for one or two references, skip-annotated latest entry, entry added between two calls}; a downstream "
                "tree with own files, siblings of the downstream path (foobar/x, foo.txt, foo-old/keep, 'foo 2'), stale or already "
                "up-to-date content below the downstream path; 1-2 tufv02 directives (with / without upstream path, with / without trailing "
                "slash, odd downstream paths, rarely a missing upstream path) and 1-3 calls of the real "
                "PropagateChangesFromUpstreamRepository. After every call the downstream tree (ls-tree -r -t -z), the commits created and "
                "the downstream RSL entries (kind, reference, upstream location, upstream entry id, target) are compared with the model of "
                "CreateSubtreeFromUpstreamRepository / TreeBuilder / git mktree / the already-propagated check, and judged against the "
                "prescribed result (replaceAt, one entry per needed propagation, none when up to date). non-trivial = some call created or "
                "had to create a commit; distinct by input hash.",
        "trusted_base": COMMON_TB + ["git mktree's C-unquoting of names starting with a double quote and git's output quoting are modelled by hand and exercised on every case"],
        "assumptions": ["a tree object's identity is its content; the downstream object store is modelled as the set of trees of the downstream history",
                        "when a blob entry's name (as read) is also a directory of another entry the outcome depends on Go's map order: the driver accepts either resolution",
                        "gitlinks (submodules) and worktree restoration (non-bare repositories with HEAD on the downstream reference) are not generated"],
    },
    "C16": {
        "test": "TestC16",
        "lean_modules": ["Gittuf.Props.C16"],
        "n": {"quick": 16, "thorough": 64},
        "shards": 1,
        "timeout": "180m",
        "rule": "operation in {record entry, annotation, State.Commit(with entry), Apply, Discard, ReconcileStaging, Attestations.Commit} x starting "
                "state in {empty, entries only, staged (first-ever Apply), established, staged change, policy ahead of staging} (24 pairs, 286 "
                "Storer calls): the k-th call returns an injected error without being performed (then the operation is retried on the same "
                "repository), or the operation is abandoned right after the k-th call; afterwards a fresh handle and an independent walker read "
                "the log and the managed references. thorough: every k of every pair in both modes; quick: a VERIF_SEED-determined sample of 16 "
                "(two thirds from the last five calls of each operation) plus the witnesses in corpus/C16 (a case costs 2-4 s here). The Lean "
                "model is run with the same fault; call order of the uninterrupted run, results, final references and log, and the retry are "
                "compared. non-trivial = the failing call is a mutation or precedes one; distinct by input hash.",
        "trusted_base": COMMON_TB + ["object reads inside policy look-ups (GetLatestReferenceUpdaterEntry, LoadCurrentState+Verify, loadStateForEntry) are matched as a head call plus a run of read kinds, not call by call"],
        "assumptions": ["the unit of failure is one Storer call (no torn write inside git)",
                        "the diverged-staging branch of ReconcileStaging is built by the harness but not yet reproduced by the model (VERIF_C16_DIVERGED=1)",
                        "crash verdicts: VerifyRef(refs/heads/main) before / after / after the crash are compared; other references' verdicts follow from the log comparison"],
    },
    "C17": {
        "test": "TestC17",
        "lean_modules": ["Gittuf.Props.C17"],
        "n": {"quick": 90, "thorough": 360},
        "shards": 1,
        "rule": "two concurrent recording operations (record/record, record/annotate, annotate/annotate) on a real repository with a log of 0 or 2 "
                "entries, their gitstore.Storer calls serialised by an explicit schedule; Commit taken as one Storer call and, separately, in its "
                "two halves (read of the tip; object creation + CheckAndSetReference) as concurrent processes see it; per-thread entry cache "
                "emulated. Systematic: every schedule with at most two preemptions (thread f runs i calls, g runs j calls, f finishes, g "
                "finishes): 330 schedules, of which quick runs a VERIF_SEED-determined sample of 90 (a schedule costs about 1.5 s here) and "
                "thorough all plus random schedules of three operations. After each schedule: results, call traces, the chain read by an "
                "independent walker (git log + own parser) and by rsl.GetLatestEntry/GetParentForEntry; compared with the Lean model run on the "
                "same schedule. non-trivial = at least two context switches; distinct by input hash.",
        "trusted_base": COMMON_TB + ["the two halves of Repository.Commit are re-composed in the harness from GetReference / Commit on a scratch reference / CheckAndSetReference"],
        "assumptions": ["interleavings inside one git update-ref are left to git's reference lock",
                        "State.Commit / Apply as concurrent writers are not explored (their rollback is not compare-and-set)"],
    },
    "C20": {
        "test": "TestC20",
        "lean_modules": ["Gittuf.Props.C20"],
        "n": {"quick": 150, "thorough": 600},
        "shards": 2,
        "min_per_shard": 60,
        "rule": "1 environment graph per run: every table / Go function / Lua function / userdata reachable from the globals table, the thread "
                "environment and the basic types' metatables of a real LuaEnvironment through fields, object keys, metatables, function "
                "environments, upvalues and prototype constants, plus the registry as hidden root; Go functions identified by implementation "
                "symbol against a reference state with all standard libraries; an in-sandbox Lua walk (pairs/getfenv, smuggled out through "
                "error()) is compared with the Go walk; the graph is compared with the committed snapshot and judged by safeB. Scripts from "
                "VERIF_SEED: 52% probes (38 forbidden and 45 allowed paths x 17 access routes: direct, coroutine.wrap/create, xpcall, "
                "getfenv(0|1|none|api|lua api|library fn), setfenv(1,{}), pairs, next, select, unpack, methods through a string value, "
                "string.__index), 22% writes to string/math/table/coroutine/_G (existing and new keys; assignment, via getfenv, via the string "
                "metatable, table.insert, plain global assignment; nil/function/number/table values), 12% return-value shapes (nothing, no "
                "return statement, 1-3 values of nil/string/table/boolean/function/coroutine/userdata/number), 6% non-terminating scripts "
                "under a 1 s timeout (tight loops, pcall/xpcall-wrapped loops, recursion, pcall recursion, coroutine ping-pong, loops inside "
                "coroutines, format/concat/sort/gsub callbacks, regex API, doubling, bounded tail-call chains, backtracking patterns) with "
                "wall time measured against timeout + 2 s, 8% hook selection through Repository.InvokeHooksForStage on a real repository with an "
                "applied policy (1-3 principals, shared keys, 0-3 hooks over both stages, signer = principal key / root key / outsider). "
                "non-trivial = reached value or forbidden path, any write, non-number result, any timing case, hooks run or refused for the "
                "principal; distinct by input hash.",
        "trusted_base": COMMON_TB + ["capability table capOf (what each allow-listed gopher-lua v1.1.2 function can return / mutate), written by hand from the library source",
                                     "identification of Go functions by runtime symbol (runtime.FuncForPC) and the reflective walk of gopher-lua's LState"],
        "assumptions": ["wall-clock measurements use a slack of 2 s; time inside one Go library call and inside error construction is measured, not modelled",
                        "pre-push hook invocation (needs a remote) is not driven; the stage filter is exercised by hooks declared for pre-push only",
                        "memory exhaustion (string doubling) is outside the property and not generated"],
    },
    "C08": {
        "test": "TestC08",
        "lean_modules": ["Gittuf.Props.C08", "Gittuf.Proofs.CacheRefine", "Gittuf.Proofs.CacheLoop"],
        "n": {"quick": 6, "thorough": 24},
        "min_per_shard": 2,
        "rule": "histories as for C01 (key-disjoint principals); each is verified by the real verifier (full / latest-only / from-entry for "
                "every reference) under the cache configurations: no cache; no cache, repeated in reverse order; cache populated at the "
                "tip; the same repeated in reverse order (checkpoints written by the first pass); cache populated when the log had k+1 "
                "entries for up to 3 random k; populated at k then advanced by verifications run when the log had k2+1 entries. For "
                "every configuration all references are listed before and after (only the cache reference may change). Every verdict "
                "of every configuration is compared with the Lean model of the cache (index, searcher, checkpoints) and with the "
                "cache-less verdict. non-trivial / distinct as for C01; one case = one history x ~8 configurations x ~6-9 queries.",
        "trusted_base": COMMON_TB,
        "assumptions": ["the process-wide RSL entry cache is reset through the verif hook before each history", "VerifyMergeable under cache configurations is not run"],
    },
    "C15": {
        "test": "TestC15",
        "lean_modules": ["Gittuf.Props.C15"],
        "n": {"quick": 100, "thorough": 400},
        "min_per_shard": 20,
        "rule": "one case = a REAL pair of repositories (bare remote + bare local with the remote as origin) whose RSLs share a prefix of 0-3 entries and "
                "then carry local-only / remote-only suffixes of 0-4 (thorough: -10) entries: reference entries over {main, feature, dev} (65% disjoint reference sets, "
                "35% free), annotations (70% skip, 1-2 ids, naming shared or own-suffix entries, mostly reference entries), propagation entries (35% over any "
                "reference); shapes diverged / local ahead / remote ahead / equal / unrelated; every ordinary reference of both sides set to what the side's log "
                "records or behind / ahead / diverged / absent (target DAG of 6 commits with a fork and a second root). 88% of the starting logs are written as "
                "commit objects directly (same message format, checked by gittuf reading them), 12% through pkg/rsl. 60% ReconcileLocalRSLWithRemote, 40% Sync "
                "(40% with overwrite). Before/after logs and references of both sides are read with plain git (log --first-parent, for-each-ref); new commit ids are "
                "numbered in order of appearance. The Lean model must reproduce class, both logs (ids included) and both reference maps; the declarative spec "
                "(new log = remote ++ rename, skips preserved, conflict incl. propagation entries => refused, refused => unchanged; sync: moves only to the latest "
                "unskipped remote entry's target and never backwards without overwrite, publishes log only with every named reference) is evaluated on the "
                "observation. non-trivial = logs differ (reconcile: truly diverged); distinct by input hash.",
        "trusted_base": COMMON_TB + ["entry ids are symbolic: equal id <=> equal entry and history (content hash); entry messages written directly parse as pkg/rsl writes them (C14's subject)"],
        "assumptions": ["unsigned RSL commits; local file-path remotes; no policy in the log (the propagation workflow inside Sync is a no-op); branch references only",
                        "the gittuf:: transport prefix and a stale remote tracker reference are not generated"],
    },
    "C12": {
        "test": "TestC12",
        "lean_modules": ["Gittuf.Props.C12"],
        "n": {"quick": 30, "thorough": 120},
        "min_per_shard": 8,
        "rule": "random sequences of 4-12 operations on a real repository, 60% on the internal/policy layer (State.Commit of full policy states obtained from "
                "the previous one by valid bumps, root rotations signed by old / new / both keys, forged or unsigned roots and rule files, version rollbacks, "
                "added / dangling / dropped rule files, earlier states staged again, with or without log entry; policy.Apply; policy.Discard; SetReference / "
                "DeleteReference on either reference without log entry; recording either reference with and without duplicate check; pushes to an unprotected "
                "probe branch) and 40% through experimental/gittuf (InitializeRoot, Add/RemoveRootKey, UpdateRootThreshold, Add/RemoveTopLevelTargetsKey, "
                "UpdateTopLevelTargetsThreshold, Add/RemoveGlobalRule, SignRoot, InitializeTargets, AddPrincipalToTargets, AddDelegation, RemoveDelegation, SignTargets, "
                "StagePolicy, ApplyPolicy, DiscardPolicy by signers inside and outside the root / rule-file roles, ssh-keygen backed signers); scripted sequences "
                "(two-step rotation applied at once and step by step, outsiders, tampered references, discard, fast-forward and rebase by ReconcileStaging) are replayed "
                "from corpus/C12. After every operation: both references, the whole RSL (read with git rev-parse / cat-file, not gittuf), every new policy commit "
                "(parent, decoded metadata) and the error class are compared with the Lean model; around every Apply the real LoadCurrentState(policy) and VerifyRefFull "
                "of the probe branch are run and compared. ApplyOK / ApplyRefuses / PolicyUntouched / DiscardRestores / RootEditRefused / PublishedVerifies are evaluated on the "
                "states observed on the real repository. non-trivial = at least one successful Apply; distinct by input hash.",
        "trusted_base": COMMON_TB + ["policy commit ids are a function of (parent, tree, message) on the test repositories' fixed clock; the API object is built around a test repository by reflection"],
        "assumptions": ["single writer, no injected faults (C16), no remote synchronisation (localOnly), no controller repositories; only the primary rule file is edited through the API; "
                        "hooks, propagation directives and GitHub apps are not edited",
                        "PublishedVerifies is judged relative to the log having been verifiable before the Apply (a log already broken by direct tampering with recording is not Apply's to repair)"],
    },
}
