"""Per-property configuration of ./check."""

COMMON_TB = [
    "symbolic cryptography: a signature is (key, digest); digests / git object ids injective",
    "git binary, go-git, encoding/json, sshsig: exercised by the correspondence run, not verified",
]

PROPS = {
    "C05": {
        "test": "TestC05",
        "lean_modules": ["Gittuf.Props.C05"],
        "n": {"quick": 1200, "thorough": 24000},
        "rule": "random rules over <=4 principals (Key / Person with 1-2 keys, shared or disjoint keys), thresholds 0..5, "
                "Git signer in {trusted, untrusted, unsigned, no object}, envelopes with <=5 signatures incl. untrusted keys, "
                "lifted signatures, wrong/empty key-id hints; 12% through the exhaustive verifier. The real "
                "SignatureVerifier.Verify (verifier from State.FindVerifiersForPath) is compared with the model under every "
                "principal/key iteration order; non-trivial = implementation result ok or unmet (not invalid-verifier); distinct by input hash.",
        "trusted_base": COMMON_TB,
        "assumptions": ["only SSH (ed25519) keys are generated; GPG / Sigstore verification paths are not modelled"],
    },
}
