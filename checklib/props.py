"""Per-property configuration of ./check."""

COMMON_TB = [
    "symbolic cryptography: a signature is (key, digest); digests / git object ids injective",
    "git binary, go-git, encoding/json, sshsig: exercised by the correspondence run, not verified",
]

WORLD_RULE = ("random histories on a real repository: policy states (root key, rule file with Key/Person principals, "
              "thresholds 1..2, optional delegation level, file rules, global rules), pushes signed by authorized / other / "
              "outsider / no key (new commits, force pushes, tree-same fixes), authorizations, skip annotations covering 1-2 "
              "entries, propagation entries, policy rotations; each world is verified with the real PolicyVerifier in full / "
              "latest-only / from-entry mode for every reference and compared with the Lean model; the declarative spec is "
              "evaluated on the implementation's verdicts. non-trivial = some query accepted or rejected for a policy reason; "
              "distinct by hash of the abstract world.")

PROPS = {
    "C01": {
        "test": "TestC01",
        "lean_modules": ["Gittuf.Props.C01"],
        "n": {"quick": 24, "thorough": 600},
        "min_per_shard": 6,
        "rule": WORLD_RULE,
        "trusted_base": COMMON_TB,
        "assumptions": ["principals of one policy share no keys (results are then independent of Go map order)",
                        "tags, controller repositories, GPG/Sigstore keys are not generated"],
    },
    "C05": {
        "test": "TestC05",
        "lean_modules": ["Gittuf.Props.C05"],
        "n": {"quick": 1200, "thorough": 24000},
        "rule": "random rules over <=4 principals (Key / Person with 1-2 keys, shared or disjoint keys), thresholds 0..5, "
                "Git signer in {trusted, untrusted, unsigned, no object}, envelopes with <=5 signatures incl. untrusted keys, "
                "lifted signatures, wrong/empty key-id hints; 12% through the exhaustive verifier. The real "
                "SignatureVerifier.Verify (verifier from State.FindVerifiersForPath) is compared with the model under every "
                "principal/key iteration order; non-trivial = implementation result ok or unmet (not invalid-verifier); distinct by input hash.",
        "trusted_base": COMMON_TB,
        "assumptions": ["only SSH (ed25519) keys are generated; GPG / Sigstore verification paths are not modelled"],
    },
}
