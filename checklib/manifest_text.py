"""Human-written level texts for MANIFEST.json."""

TB = ("Trusted: Lean 4.33.0 kernel (axioms at most propext, Classical.choice, Quot.sound; no sorry/native_decide); "
      "symbolic cryptography; the hand-written model is tied to the code only by the correspondence run "
      "(Go harness + line protocol + Lean driver), whose coverage is measured in the evidence file. ")

TEXT = {
    "C05": {
        "text": "C05_sound / C05_invalid / C05_accept_satisfies are proved in Lean for every rule shape, every principal and key "
                "iteration order, every Git signature and every envelope (no bound on principals, keys or signatures): a successful "
                "SignatureVerifier.Verify returns >= threshold distinct principals of the rule, injectively credited through their own "
                "keys with valid signatures over exactly this object/envelope, at most one through the Git signature; threshold<1 or "
                "no principals is never satisfied. The model is compared with the real Verify (verifiers from FindVerifiersForPath, real "
                "ed25519 signatures) under every map iteration order; the spec is also evaluated on the implementation's own output, "
                "including completeness for key-disjoint principals.",
        "note": TB + "Completeness for key-disjoint principals (C05_exact) is so far checked on the implementation's output by the driver, not yet a theorem. Only SSH keys are generated.",
        "technique": "Lean 4 proof (invariant over the principal loop) + differential correspondence",
    },
}

NOT_YET = {}
