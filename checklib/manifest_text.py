"""Human-written level texts for MANIFEST.json."""

TB = ("Trusted: Lean 4.33.0 kernel (axioms at most propext, Classical.choice, Quot.sound; no sorry/native_decide); "
      "symbolic cryptography; the hand-written model is tied to the code only by the correspondence run "
      "(Go harness + line protocol + Lean driver), whose coverage is measured in the evidence file. ")

TEXT = {
    "C01": {
        "text": "Lean model of VerifyRefFull / VerifyRef / VerifyRefFromEntry (LoadState chain, range walk with policy/attestation "
                "switching, verifyEntry with authorizations, code-review approvals, file rules, global rules, recovery loop) over an "
                "abstract history. Proved for EVERY history, range, starting state and variant (induction over the verification loop incl. "
                "the recovery branch's queue rewriting): if relative / full verification accepts, every entry recorded for the reference "
                "in the range is either revoked or was accepted by verifyEntry under a policy state and an attestation state that were "
                "in force during the walk (relLoop_sound_gen, C01_relative_sound, C01_full_sound) - unconditionally for the repaired "
                "F2/F3 behaviour, and for the code as it stands under the explicit side conditions 'no propagation entry for a branch in "
                "range' and 'nothing revoked in range'; the states are EXACTLY the ones immediately preceding the entry (relLoop_exact_gen, "
                "C01_relative_exact, C01_full_exact: induction over the loop with the invariant 'the state held is the one recorded last "
                "before the head of the queue; the queue holds every later policy / attestation entry'): each entry was accepted under the "
                "policy and attestation state recorded last before it (the states loaded for the first entry if none is in range), or is "
                "revoked, or is the fix of a revoked entry (verified under the states in force at that entry; unverified with F3), or is a "
                "propagation entry (F2); that state IS the declarative policyBefore of Spec/C01 - the state recorded by the latest policy "
                "entry strictly before the entry in the whole log, inside the range or before it (polInForce_eq_policyBefore, "
                "initialPolicy_records, loadState_chain, C01_policy_in_force_is_policyBefore; likewise attBefore: C01_att_in_force_is_attBefore) - "
                "so later or earlier states never legitimize an entry; and verifyEntry's acceptance means what the property says for the Git rule: a consulted "
                "rule is met by >= threshold distinct principals of its own, injectively credited through valid signatures over this entry / "
                "this authorization or matched to code-review approvers (go_accept_rule_met, verifyObject_accept, C01_entry_accept), which "
                "implies the declarative per-entry authorization of Spec/C01 - the principals contributed to EXACTLY this change "
                "(ruleMet_count, ghApprovers_sound, C01_entry_authorized_git; F7 repaired, no global rules, well-defined principals); "
                "the reported tip is the target of the latest entry; a reference without entries "
                "never verifies. F1_witness / F2_witness / F3_witness: kernel-evaluated histories on which the model of the unchanged "
                "code accepts what the declarative property (c01Sound) forbids, and the repaired variants reject. The declarative "
                "property is evaluated by the driver on the verdict the REAL verifier returns for every generated history; the model "
                "(open defects as explicit Variant flags) must reproduce every verdict and tip of the real code.",
        "note": TB + "Not yet theorems: the same declarative link for file rules and for policies with global rules. "
                "F1 (fixed in /repo, 00d1364) and F4 (fixed, 8a14108) stay in the corpus as regression witnesses; F2, F3 are open findings reproduced on every run.",
        "technique": "Lean 4 proof (loop invariant by induction on fuel, queue-partition lemma for recovery) + differential correspondence with spec evaluated on the implementation",
    },
    "C05": {
        "text": "Proved in Lean for every rule shape, every principal and key iteration order, every Git signature and every envelope (no "
                "bound on principals, keys or signatures). Soundness (C05_sound, C05_accept_satisfies, invariant over the principal loop): "
                "a successful SignatureVerifier.Verify returns >= threshold distinct principals of the rule, injectively credited through "
                "their own keys with valid signatures over exactly this object / envelope, at most one through the Git signature; the same "
                "bookkeeping holds for the set reported with 'conditions unmet' (C05_unmet_credited); threshold < 1 or no principals is "
                "never satisfied (C05_invalid). Completeness (C05_complete, C05_complete_env): when the principals share no keys, the rule is "
                "satisfied whenever at least threshold of them signed - the Git object, the envelope, or both; a kernel-evaluated example "
                "with a shared key shows the hypothesis cannot be dropped; and a signature on the Git object never hurts: a rule satisfied by "
                "the envelope alone is satisfied whatever signature the object carries (C05_git_signature_monotone, the one-rule step from "
                "'mergeable, no further signature needed' to 'the recorded merge verifies whoever records it'). The model is compared with the real Verify (verifiers from "
                "FindVerifiersForPath, real ed25519 signatures) under every map iteration order; both directions are also evaluated on "
                "the implementation's own output.",
        "note": TB + "Completeness assumes an envelope, when present, carries at least one signature (F28 otherwise). "
                "Only SSH keys are generated. An envelope without any signature makes Verify fail hard (modelled; finding F28).",
        "technique": "Lean 4 proof (invariants over the principal loop, counting by injectivity) + differential correspondence",
    },
    "C13": {
        "text": "Proved in Lean for the model of the tufv01/tufv02 mutators, for arbitrary (also invalid) arguments - undefined or repeated "
                "principal ids, any threshold, reserved names, nil / foreign principal types - and arbitrary finite edit sequences: the FULL "
                "invariant is preserved by every rule-file mutator (C13_inv_preserved, C13_inv_preserved_full, C13_run_inv, "
                "C13_run_inv_from_new): the allow rule stays last and only there, no user rule gets the reserved prefix, every threshold is "
                ">= 1 and <= the number of DISTINCT principals the rule lists, every rule's principals are distinct and defined (the structural "
                "part separately: C13_struct_preserved, C13_run_struct); refused edits leave rules/principals unchanged "
                "(C13_refused_unchanged; C13_refused_trace_exact: the whole object is identical except possibly the principal map AddPrincipal allocates before its type check, C13_refused_trace_witness shows that exception is real); for root metadata C13_root_run_eq_accepted: after any sequence of edits the object equals the one reached by the accepted edits alone, no mutator panics on well-formed metadata (C13_no_panic); the old F10 witness "
                "AddRule(r,[k,k],2) / UpdateRule(r,[k,k,k],3) with one defined principal is now refused with ErrCannotMeetThreshold and "
                "leaves the metadata unchanged (C13_F10_repaired, C13_F10_repaired_update, kernel-evaluated, both schema versions); root "
                "roles keep 1 <= threshold <= #principals with all principals defined, global thresholds >= 1 and unique global rule names "
                "for arbitrary arguments (C13_root_inv_preserved, C13_root_run_inv, C13_root_refused_unchanged). The model is compared with "
                "the real objects after every edit; JSON round trip (real encoding/json) and v01->v02 migration are checked on the real "
                "objects' queries (rules, patterns, principals, thresholds, global rules, propagation directives, controller/network, hooks, "
                "version).",
        "note": TB + "Round trip and migration are correspondence-checked, not Lean theorems. Name uniqueness across rule files is not covered. "
                "Four defects were found by this check, reproduced on the real code and have since been FIXED in /repo: F10 (AddRule/UpdateRule "
                "compared the threshold with the length of the id argument list, duplicates included; fixed by 43f8e67, both schema versions "
                "now compare with set.NewSetFromItems(ids...).Len()), F20 (tufv01 root UnmarshalJSON dropped Version; f26f8ac), F21 (AddHook "
                "refused after partially storing the hook; 2669d00), F22 (RemoveHook accepted an invalid stage and made the root "
                "unserializable; c4e795c). The model now describes the repaired code, and the full invariant theorem holds without the "
                "former 'no repeated principal ids in the argument list' (NoDupArgs) proviso; the theorem that refuted the full statement "
                "(C13_F10_witness) is replaced by C13_F10_repaired. The four witnesses (corpus/C13/f10, f20, f21, f22) are replayed on "
                "every run and must show the repaired behaviour; the driver attributes a case to F10/F20/F21/F22 only while that finding "
                "is listed as open, so a return of any of these defects is reported as a VIOLATION.",
        "technique": "Lean 4 proof (invariant preservation per mutator, induction over edit sequences) + differential correspondence",
    },
    "C06": {
        "text": "The Go work-list of findVerifiersForPathIfProtected (rule groups, seenRoles, prepend, break on terminating-with-file, "
                "loop bound len>1) is modelled literally with explicit fuel; C06_walk_terminates proves the fuel of findVerifiers suffices "
                "for every finite policy (cycles, diamonds, duplicated names included). Against an inductive, queue-free description of the "
                "documented walk (Entered / ConsultedIn / Cuts) the theorems give, for every match relation and with no size bound: "
                "C06_walk_complete (every consulted matching rule yields a verifier; no hypothesis on names), C06_walk_sound (every verifier "
                "comes from a consulted matching rule and carries its name, threshold and principal ids; under unique rule names, which the "
                "loader enforces), C06_walk_sound_reach (the same without the cut-off for arbitrary graphs), C06_allow_rule_never_consulted, "
                "C06_unprotected_iff (no verifier iff no consulted rule matches). The model is compared with the real FindVerifiersForPath on "
                "the exact ordered verifier list including resolved keys, on raw envelope states (cycles, diamonds) and through the loader; "
                "the spec is evaluated on the implementation's output as a multiset.",
        "note": TB + "Open finding F23: principal ids are resolved in one map overwritten by every entered file, so a rule may carry another "
                "file's key material for its principal id (C06_own_principals is stated, checked by the driver on the implementation's output, not proved). "
                "Bracket classes of fnmatch and ListRules are not modelled.",
        "technique": "Lean 4 proof (work-list invariants, fuel measure) + differential correspondence",
    },
    "C14": {
        "text": "Proved in Lean over arbitrary byte strings (strings.Split / TrimSpace incl. all Unicode blanks / Cut / ParseUint / NewHash modelled "
                "on bytes; encoding/pem.Decode and base64 of Go 1.26 modelled byte for byte): C14_parse_render_ref and C14_parse_render_prop (every "
                "reference / propagation entry with clean values, 40/64-digit ids and a uint64 number parses back to itself from its commit message; "
                "upstream locations may contain ':'), C14_parse_render_ann_partial (the same for annotations with 1..n ids and arbitrary message bytes, "
                "assuming the decidable PEM contract PemRoundTrip), C14_fields_ref and C14_fields_prop (every accepted text has a ':' on every body "
                "line and carries exactly the canonical sequence of known fields with the returned values: a missing, repeated or out-of-order "
                "field is rejected, no text yields two values for a field), C14_parse_canonical_ref_partial, C14_render_injective (two recordable entries of any kind with the same text are the same entry; C14_ref_text_ne_prop_text: kinds are never confused), C14_F11_witness. Totality: the model is "
                "a total function; the only index expressions of the Go parsers (lines[0], lines[1], lines[2:]) are guarded. The model is compared "
                "with ParseEntryText (class, error kind, all fields) and with entries recorded through the real API (stored text and read-back "
                "fields); panics are recovered per case; the property (re-render fixed point + canonical field sequence, for all three kinds incl. "
                "annotations) is evaluated on the implementation's own output.",
        "note": TB + "Only stated, not proved: C14_parse_render_ann without the PEM hypothesis (base64 round trip), C14_parse_canonical for all kinds "
                "(needs: strings.TrimSpace results are clean), the field characterisation for annotations (checked by the driver on every accepted text). "
                "Recorded names are UTF-8 and NUL / line-break free: git commit-tree rewrites other bytes (see corpus/C14/candidates).",
        "technique": "Lean 4 proof (table-driven state machine, byte-level string lemmas) + differential correspondence",
    },
    "C07": {
        "text": "Lean model of the recovery branch of VerifyRelativeForRef (last good state, fix search, re-queuing). Proved for every "
                "queue and history: a reported fix is an unskipped entry of the affected reference whose tree equals the last good tree "
                "(skipped entries are never the fix), and when no unskipped intermediate is flagged every entry for the reference before "
                "the fix is skipped (C07_fix_is_unskipped_treesame, C07_intermediates_skipped); every element of the searched queue ends "
                "up deferred, chosen as the fix, or is a skipped entry of the affected reference (lookForFix_partition); and, by the "
                "loop theorem relLoop_sound_gen (induction over the whole loop incl. re-queuing), in an accepted range every entry for the "
                "reference that verifyEntry did not accept is marked skipped, deferred entries of other references are still processed. "
                "Whole-loop theorem (induction over the loop with a queue invariant; relLoop_recovery_gen, C07_relative_tolerated, "
                "C07_full_tolerated): if verification of a branch accepts, every entry of the branch was accepted by verifyEntry under a "
                "state in force, or is revoked and followed by an unrevoked entry of the branch that restores the tree of the last unrevoked "
                "entry before it with every entry in between revoked (implies the executable predicate 'tolerated'), or - only with defect "
                "F3 - is the unverified fix of such an entry. "
                "The declarative statement C07_sound_statement (tree-same fix, all intermediates skipped) is evaluated on every range "
                "the REAL verifier accepts; the model must reproduce every verdict of the real code on the generated recovery patterns.",
        "note": TB + "The whole-loop theorem assumes no propagation entry for the verified branch in the range and entries that name commits "
                "(decidable; met by the kernel-checked witness wRec); 'accepted by verifyEntry' is linked to the declarative authorization "
                "only for the Git rule (C01). F3 (fix entry never verified) is an open finding that also violates C07.",
        "technique": "Lean 4 proof of the fix-search invariants + differential correspondence on recovery patterns",
    },
    "C02": {
        "text": "Proved in Lean for every pair of policy states (any key sets, signer sets, thresholds, versions, rule files): "
                "VerifyNewState accepts a successor only if its root is signed by a threshold of DISTINCT root keys of the predecessor "
                "(C02_newState_root_signed, via C05_sound and a counting lemma) and only if no version decreases and no rule file "
                "disappears (C02_newState_versions); LoadState's chain enforces both between every consecutive pair, by induction over "
                "the log (C02_chain_sound); State.Verify accepts a state only if its primary rule file is signed by a threshold of distinct "
                "keys of the role its own root names (C02_verify_primary_signed) and every delegated rule file it contains was reached through "
                "a rule of that name whose verifier accepted its envelope - no dangling file, none taken on trust (C02_verify_delegations, "
                "induction over the delegation queue). Whole loop (relLoop_chain_gen, C02_relative_chain; induction over the verification loop with "
                "the state invariant of C01, every history / range / reference / variant): if verification accepts, every policy entry "
                "inside the range - also one the recovery branch set aside and re-queued - loads, was accepted by VerifyNewState of EXACTLY the "
                "policy state in force before it (so root signed by the predecessor's root threshold, no version decrease, no file lost) and, "
                "with F4 repaired, passed State.Verify (primary file signed per its own root, delegations reached and accepted). "
                "The whole-verification statement C02_sound_statement is evaluated as a declarative "
                "predicate (signer counting, reachability of delegated files, dangling files, version monotonicity) on every "
                "verification the REAL verifier accepts, in full / latest-only / from-entry mode; the model must reproduce every verdict.",
        "note": TB + "Mergeability mode is covered under C19. F4 (in-range policy entries were not self-verified) was found, reproduced from "
                "corpus/C02 and FIXED in /repo (8a14108); the witness stays as a regression case. LoadState's own chain is exact (chainStates_exact, loadState_chain: every policy entry "
                "up to the requested one was accepted by VerifyNewState of the state recorded by the policy entry immediately before it, from "
                "the first policy entry of the log on; the result is the state the requested entry records and passed State.Verify), "
                "assuming no propagation entries on the policy reference (decidable, policyRefOnlyB).",
        "technique": "Lean 4 proof (C05 soundness + counting, induction over the chain) + differential correspondence on forged chains",
    },
    "C11": {
        "text": "Proved in Lean for every list of global rules, every path and every history: a successful global-rule pass means every "
                "matching threshold rule is met by the number of accepted principals (C11_threshold_enforced) and, for an entry with an "
                "earlier unskipped entry, every matching block-force-pushes rule saw the target descend from it (C11_ff_enforced); with "
                "the F1 repair the exhaustive verifier only ADDS principals: acceptance implies acceptance by the delegation verifiers "
                "alone with the same verifier name (C11_exhaustive_adds_only). Monotonicity for one change (Props/C11b: verifyObject_mono, "
                "verifyPaths_mono, verifyFiles_mono, C11_entry_monotone, every history / policy / attestation state / entry, F1 and F64 "
                "repaired): whatever verifyEntry accepts under a policy that declares global rules it accepts under the same policy "
                "without them - the Git rule and every file rule of every commit, including the 'already verified with' shortcut between "
                "the paths of a commit; hypothesis: no rule carries the reserved name of the exhaustive verifier (decidable, noReservedNameB; "
                "walkSane_of_B by induction over the delegation walk); a kernel-evaluated example shows monotonicity FAILS with F63 "
                "present; F64_witness / F65_witness: kernel-evaluated histories on which the model of the code before the repairs accepts "
                "what the additive part of the property (c11Globals, now including every changed FILE matched by a global threshold rule) "
                "forbids, and the repaired variant rejects. Whole-history monotonicity (C11_monotone_statement) is "
                "checked on the REAL verifier by verifying every generated history under P+G and, on a sibling repository, under P.",
        "note": TB + "On the original tree monotonicity was FALSE (F1: the exhaustive verifier ended the verifier loop, so any global rule "
                "disabled the delegation rules); the model reproduced it, the violating histories were attributed to F1, and F1 was FIXED in "
                "/repo (00d1364) - the check now passes with the repaired variant and no KNOWN-FINDING line. A second defect of the same family, "
                "F63 (the exhaustive verifier served as the 'trusted verifier' of a commit after an unprotected path, so the commit's "
                "protected paths were not checked once any global rule existed), was found while proving C11_entry_monotone, reproduced on "
                "the real code and FIXED; F64 (the shortcut skipped the global rules of later paths) and F65 (global rules on file namespaces "
                "were never evaluated without a delegation file rule) were found the same way, reproduced and FIXED (be4b253, 27fdb63). "
                "Whole-history monotonicity is not a theorem: in the repaired model the fix entry of a recovery is "
                "verified under the state in force at the revoked entry, which lets an in-window policy update separate the two runs.",
        "technique": "Lean 4 proof (induction over the global-rule list; case analysis of the verifier loop) + differential/metamorphic correspondence",
    },
    "C09": {
        "text": "Proved in Lean for every attestation tree: the authorization envelope handed to the verifiers comes from an entry stored "
                "under the key of (ref, from, to) whose SIGNED STATEMENT names exactly (ref, from, to) (C09_auth_exact, "
                "C09_approvals_auth); merging code-review approvers never counts a principal twice (C09_approvers_nodup) and only "
                "counts principals of the rule that registered the approver's identity (C09_approvers_sound). The whole-range statement "
                "C09_sound_statement is evaluated on every range the REAL verifier accepts over generated attestation trees with "
                "relocated, mismatching, late, foreign-signed and dismissed approvals; the model must reproduce every verdict.",
        "note": TB + "F7 (a code-review approval was looked up by path only, its predicate never validated) was found, reproduced from corpus/C09 "
                "and FIXED in /repo (1209d45); the witness stays as a regression case.",
        "technique": "Lean 4 proof (lookup exactness, approver-merge invariants) + differential correspondence on generated attestation trees",
    },
    "C04": {
        "text": "Model/Log.lean follows pkg/rsl's readers loop by loop (GetEntry, GetParentForEntry, GetLatestReferenceUpdaterEntry with all nine options, "
                "GetFirstEntry / GetFirstReferenceUpdaterEntryForRef, GetNonGittufParentReferenceUpdaterEntryForEntry, GetFirstReferenceUpdaterEntryForCommit, "
                "GetReferenceUpdaterEntriesInRange[ForRef]). Proved in Lean, for every store, every log length and every option combination (options universally "
                "quantified): C04_latest_refines_reachable and C04_first_refines_reachable (Props/C04b) — composing with the C03 recording theorems lifted to every operation sequence (readyLog_run), the reader equals the list specification on every log recordable by numbered operations from the empty repository, with no hypothesis about the store left; C04_latest_refines_general / C04_latest_refines — on a chain whose links pass GetParentForEntry, complete (ChainInv) or cut short by a "
                "tampered link, the reader (F5/F24 repaired) returns exactly the entry and exactly the annotations of the list specification latestSpec "
                "(takeWhile/dropWhile/find? over the log), not-found when nothing qualifies, and the tamper error whenever the scan has to leave the well-formed "
                "prefix; C04_latest_refines_asis_partial — the same for the code as it stands for all options except UntilEntryID and before+UntilEntryNumber; "
                "C04_first_refines / C04_first_fail_closed (GetFirstEntry / GetFirstReferenceUpdaterEntryForRef), C04_range_refines (GetReferenceUpdaterEntriesInRange[ForRef], all "
                "annotations incl. those recorded after the range), C04_nonGittufParent_refines, C04_forCommit_refines (any reachability oracle) — the same refinement, on "
                "complete and tampered chains, for every other exported reader; C04_step_branch / _garbage / _number / _ok — "
                "GetParentForEntry refuses exactly extra parents, numbering breaks and non-entries; C04_walk_fail_closed — every reader loop returns the tamper "
                "error when it has to step over such a link; C04_F5_witness(2) / C04_F24_witness / C04_latest_asis_false — the unrestricted statement about the code "
                "as it stands is false. All readers are compared with the real code and judged against the list specs on real repositories, including every single-point corruption.",
        "note": TB + "Open findings F5 (UntilEntryID exclusive / not stopping when the until entry is examined first) and F24 (before bound = until number examines one entry "
                "too many) are reproduced by the model with Fix={} and flagged KNOWN-FINDING. C04_range_refines assumes an annotation lists an id once (otherwise the Go map repeats the annotation; the driver compares as sets). "
                "AnnBackward (annotations name older entries only) is a hypothesis of the refinement theorems; C03_step_annBackward proves that recording establishes it.",
        "technique": "Lean 4 proof (reader loops = list machine = list specification) + differential correspondence on real repositories",
    },
    "C03": {
        "text": "Model/Log.lean `step` follows Commit / CommitWithoutNumber of reference, annotation and propagation entries (setEntryNumber, the referenced-id check, "
                "commitEntry → one commit whose parent is the current tip). Proved in Lean for every store and every operation with arbitrary ref names, targets, flags and "
                "messages: C03_init; C03_chain_shape — ChainInv in the property's words (every entry but the first has exactly one parent, the next entry of the log, and "
                "is numbered parent+1, 1 right after unnumbered entries; the first has none); C03_step_exact — on a well-formed log a successful operation appends exactly one fresh commit, numbered previous+1 (1 on an empty or "
                "unnumbered log, 0 for the legacy operations), and a failed one leaves the store unchanged; C03_step_inv — ChainInv is preserved; C03_step_extends — "
                "append-only, old tip stays an ancestor (no hypothesis at all); C03_failed_unchanged; C03_annotate_refused / C03_annotate_accepted — an annotation is "
                "written iff every id it names is a well-formed entry of the store; C03_skipAll_shape / C03_skipAll_inv — SkipAllInvalidReferenceEntriesForRef writes nothing or exactly one skip annotation through the same path; "
                "C03_step_annBackward — recorded annotations name only older, stored entries (the hypothesis of the C04 theorems); C03_run_inv — lifted by induction to every prefix of every operation sequence "
                "(C03_numbered_admissible: any sequence of numbered operations whose annotations name at least one entry); C03_run_extends / C03_run_prefix_extends — append-only for every operation sequence whatsoever from every store, no admissibility needed: each intermediate state is extended by every later one; C03_F25 — the unrestricted statement is false: "
                "an annotation naming no entry is accepted and leaves an unparsable tip. Real op sequences through pkg/rsl are compared commit by commit with the model "
                "after every operation using an independent git cat-file reader, and ChainInv / Extends / exactness are evaluated on the implementation's chain.",
        "note": TB + "Open finding F25 (annotation without ids bricks the log) is reproduced by the model and flagged KNOWN-FINDING. SkipAllInvalidReferenceEntriesForRef is modelled and driven directly; policy State.Commit / policy.Apply / "
                "Attestations.Commit are driven through their real entry points, but whether they record is taken from the observation (the policy layer is not modelled here) "
                "and only their effect on the RSL (one reference entry, chain shape, append-only) is compared and judged. "
                "Legacy (CommitWithoutNumber) operations are admissible only while the log is unnumbered.",
        "technique": "Lean 4 proof (invariant preserved by each operation, induction over sequences) + differential correspondence on real repositories",
    },
    "C19": {
        "text": "Lean model of VerifyMergeable (latest policy / attestations, merge tree for fast-forward shapes, relaxed threshold, file "
                "rules) next to the model of verification. Proved for every verifier list, signature, envelope and approver set: the "
                "answer 'signature needed' arises only when some rule with threshold t has exactly t-1 counted principals of its own "
                "(C19_need_means_one_short); 'no signature needed' only when a verifier accepted outright or its own counted principals "
                "reach its threshold (C19_no_need_means_met); an answer 'possible, no signature needed' is literally the answer the "
                "verification-mode loop gives on the same inputs (C19_no_need_is_verification), an outright refusal in mergeability mode "
                "is a refusal in verification mode and verification-mode acceptance implies 'possible' (C19_refusal_is_refusal, "
                "C19_verification_implies_possible): mergeability mode only ever relaxes. The agreement statement C19_statement (recorders "
                "with their own signature, whole histories) is checked on the REAL code: "
                "prediction, then the merge recorded by each candidate recorder and verified.",
        "note": TB + "Only fast-forward merges. Open findings on this tree: F27 (threshold-1 rules are reported 'not possible' without "
                "approvals), F28 (an authorization envelope without signatures makes the prediction fail hard), F66 (the loop stops at the "
                "first rule that is one principal short although a later rule is already met: 'signature needed' is reported for a merge "
                "that verifies whoever records it). F1 (global rules) is fixed.",
        "technique": "Lean 4 proof (case analysis / induction over the verifier loop) + differential correspondence: predict, record, verify",
    },
    "C10": {
        "text": "Layer (b), verification (model Verify.lean, theorems Props/C10b.lean, for every history, policy and variant): acceptance of "
                "an entry under a policy with file rules means verifyObject accepted EVERY path changed by EVERY commit reachable from the "
                "new target and not from the previous one - linear, merge and root commits alike (verifyPaths_all, C10_all_paths, "
                "C10_entry_checks_all_commits, commitsBetween_spec); the histories with file rules generated for C01 tie this model to the "
                "real code. Layer (a), the path codec, is what this check's own harness exercises: git's output formats (ls-tree, ls-tree -r, --name-only with C-style quoting under the default "
                "core.quotePath, and the -z forms) and gittuf's parsers exactly as coded (whole-output TrimSpace, split at newline, at blank, at "
                "tab) are executable Lean functions over byte strings. Proved: the NUL-delimited readers return every NUL-free name verbatim "
                "(paths_roundtrip_z, paths_verbatim_z) and GetFilePathsChangedByCommit built on them returns exactly the prescribed list for "
                "root, linear and merge commits (changed_verbatim_z); the readers as coded are verbatim for names made of safe bytes only "
                "(paths_roundtrip_partial, changed_one_partial; predicate safeName); paths_witness / paths_not_verbatim_as_coded prove the full "
                "statement false for the code as it stands. The model is compared with the real GetFilePathsChangedByCommit, GetAllFilesInTree "
                "and GetEntriesInTree on real repositories over odd names, and the real results are judged against git's own -z output.",
        "note": TB + "Layer (a) only. Open finding F8: without -z / core.quotePath=off, names with bytes >= 0x80, quotes, backslashes or control "
                "bytes arrive C-quoted, names with blanks are truncated by the ls-tree parsers, leading/trailing blanks of the first/last name "
                "are trimmed. The verbatim theorem for the ls-tree line parser on safe names is checked per case by the driver, not proved.",
        "technique": "Lean 4 proof (byte-level split/trim lemmas) + differential correspondence on real repositories",
    },
    "C18": {
        "text": "Lean model of PropagateChangesFromUpstreamRepository: latest unskipped upstream entry, the already-propagated check via "
                "GetPathIDInTree, CreateSubtreeFromUpstreamRepository (flatten through the ls-tree parser, prefix filter with the added slash, "
                "graft when the tree object exists else copy, TreeBuilder incl. Go map-order dependence, git mktree's unquoting, mode 100644) and "
                "the propagation entry fields, with one Variant flag per known defect. Proved for all trees, directories and directives on the "
                "list level: the prescribed result restricted to the downstream path is exactly the upstream subtree (prop_subtree); every entry "
                "outside keeps name, blob and mode and nothing is added (prop_frame); foo is not below foo, foobar/x and 'foo bar' are not below "
                "foo (under_self, under_sibling); with the repaired check a repeated directive creates no commit and no entry, however often "
                "(prop_idempotent, prop_idempotent_n); in every variant a recorded entry names the directive, the latest unskipped upstream entry "
                "and the commit just created (prop_entry). F15_witness / F15_repaired / F8_F16_witness prove the defects on the model as coded. "
                "The model is compared with the real code on real upstream/downstream repositories after every call; the prescribed result is "
                "evaluated on what the real code did.",
        "note": TB + "Open findings F15 (upstream path: re-propagates on every call), F8 (names with blanks truncated, quoted names below a "
                "directory make git mktree fail), F16 (modes of every re-written blob become 100644). That the repaired model equals the "
                "prescribed result (it goes through the tree builder) is checked by the driver on every case, not proved.",
        "technique": "Lean 4 proof (list lemmas on flattened trees) + differential correspondence on real repositories",
    },
    "C16": {
        "text": "The mutating operations are modelled as programs over Storer calls with fault-at-k and stop-after-k interpreters. For five "
                "starting stores (empty, first-ever, first-ever Apply, established, policy ahead of staging), every operation and EVERY "
                "call index, the repaired variant is proved to report the error, keep a valid chain, keep references unchanged or equal "
                "to their latest entry, and reach the uninterrupted state on retry (fault_all_partial); the code as it stands is proved so "
                "on the established store except for GetCommitMessage faults (fault_established_code); crash_chain_partial covers every "
                "stopping point. fault_F13_witness / fault_F50_witness / fault_F51_witness prove the three defects in the model of the "
                "code; the real code is run with the same faults on real repositories and must agree with the model.",
        "note": TB + "F13, F50, F51, F67 (faults on tolerated reads are swallowed: success is reported) are open. The theorems are bounded to the listed starting stores (all k); the universally quantified statements "
                "are kept as fault_statement / crash_statement. crash_verdict is checked on the implementation only.",
        "technique": "Lean 4 kernel evaluation over all fault points + fault-injecting differential testing",
    },
    "C17": {
        "text": "conc_linear is proved for every number of threads, every program that moves the log reference only through Commit / "
                "compare-and-set (the recording operations: disc_recordRef, disc_annotate) and every schedule: objects are only added, "
                "every earlier log tip stays reachable from every later one along first parents, created commits have at most one parent. "
                "conc_numbers_witness proves that the code's two-read protocol yields two entries with the same number (F14). For two "
                "writers and EVERY schedule of their calls (2^8 / 2^10 orders, kernel-evaluated) conc_exactly_once_partial (code protocol, "
                "both granularities) and conc_numbers_partial (repaired protocol: number and parent from one read) are proved; the "
                "unbounded statements are kept as conc_exactly_once_statement / conc_numbers_statement. The model is compared with real "
                "goroutines on a real repository whose Storer calls follow the same schedules.",
        "note": TB + "F14 is open and reproduced on every run. exactly-once and numbering are proved for two writers only (all schedules), not for n.",
        "technique": "Lean 4 proof (invariant over the step relation) + exhaustive kernel evaluation over schedules + schedule-controlled differential testing",
    },
    "C20": {
        "text": "The sandbox environment is modelled as a finite graph extracted on every run from a real LuaEnvironment (tables, Go "
                "functions identified by implementation, Lua functions; edges = fields, object keys, metatables, function environments, "
                "upvalues, constants). Proved in Lean for every finite graph: if the executable check safeB passes, every node reachable "
                "from the script-visible roots is inert data, a table, an allow-listed library function or a registered API "
                "(C20_safeB_sound), and every script, as an arbitrary finite sequence of the abstract actions follow-edge / call held "
                "allow-listed function on held arguments / write / setfenv, only ever holds such values (C20_reach_closed, "
                "C20_script_holds_only_safe; induction over the action sequence, writes only add edges inside the closure). For the graph "
                "of the unchanged tree, committed as Gittuf/Model/SandboxSnapshot.lean, the check is discharged by kernel evaluation "
                "(C20_closure_safe_snapshot, decide +kernel over 103 nodes / 125 edges; the graph also contains the registry's module "
                "loaders, which the closure provably excludes). Also proved: a non-number result gives exit code 1 (C20_non_number_fails); "
                "every hook run is a hook of the requested stage assigned to a principal owning the signer's key, an unknown signer runs "
                "nothing (C20_hooks_run_assigned, C20_unknown_signer_runs_nothing); in the interpreter-loop abstraction a script is "
                "stopped by deadline + D when no step exceeds D and every longer script is cut (C20_timeout_partial, "
                "C20_long_script_is_stopped). The driver evaluates safeB on the run-time graph of every run, compares it with the snapshot "
                "and with what a script can enumerate from inside the sandbox, and compares escape / write / return-value / "
                "non-termination / hook-selection scripts run on the real code with the model.",
        "note": TB + "Trusted additionally: the hand-written capability table (capOf) of the remaining gopher-lua functions. PARTIAL: the "
                "write-protection statement TablesProtected is false for the code as it stands (C20_F30_witness; only writes of absent keys "
                "are refused: C20_tables_protected_partial) and the unconditional timeout statement StoppedByDeadline is false "
                "(C20_not_stopped_by_deadline): real time inside one Go library call and inside error construction is measured by the "
                "harness, not modelled. Open findings F30 (module tables writable), F31 (base library / API globals replaceable), F32 "
                "(pattern matching not interruptible), F33 (stack trace after tail calls). getfenv, setfenv, newproxy, _printregs, print "
                "are reachable; they are on the allow-list with explicit capability summaries (environment read/write of reachable "
                "tables only, fresh userdata, stdout).",
        "technique": "Lean 4 proof (closure invariant over action sequences, kernel-evaluated closure of the extracted graph) + "
                     "graph extraction and differential correspondence on generated scripts",
    },
    "C08": {
        "text": "Lean model of the persistent cache (sorted index, insertion, lookup), of the cache-backed searcher, of LoadState through it "
                "and of verification with checkpoints, threaded through the verification loop. Proved: insertion keeps the index "
                "ascending and adds exactly the new entry; on an ascending index the lookup returns the greatest listed entry not above "
                "the requested one, and this holds after ANY sequence of insertions in any order with repetitions (C08_inserts_sorted, C08_lookup_after_inserts; C08_inserts_order_independent: the index depends only on the set of inserted entries); PopulatePersistentCache lists exactly the policy reference entries, ascending; a freshly populated (covering) "
                "cache answers the policy look-up for any non-policy entry exactly as the scan of the log does, for every history "
                "(C08_lookup_refines); the verdict of the verification loop never depends on the cache threaded through it - absent, stale, "
                "fresh or populated at any earlier point (relLoopC_verdict, induction over the whole loop incl. recovery, every history / "
                "queue / state / variant): every cache-dependence of a verdict comes from where the walk STARTS (checkpoint, F29) and from "
                "which policy / attestation state it starts with (look-ups, F6); and, by kernel "
                "evaluation of the whole verification model, the two cache defects of this tree: F6 (a cache populated before a policy "
                "change makes latest-only verification accept a de-authorized key) and F29 (a checkpoint written by a successful "
                "latest-only / from-entry verification makes later full verification skip earlier violations). The full statement "
                "C08_cached_eq_statement is kept; the property is checked on the REAL code across cache configurations, and the model "
                "must predict the verdict of every configuration.",
        "note": TB + "On this tree the property is false (open findings F6, F29); every configuration-dependent verdict observed is reproduced "
                "by the cache model. F19 (tag path mutates cached verifiers) is not exercised: tags are not generated.",
        "technique": "Lean 4 proof (index invariants; kernel-evaluated witnesses) + metamorphic/differential correspondence across cache configurations",
    },
    "C15": {
        "text": "Lean list-level model of ReconcileLocalRSLWithRemote (common ancestor, local-only entries, conflict check, replay loop) with the two faces of "
                "F12 as variant flags, of getLatestRefTipsFromRSLEntries, and of sync over two abstract repositories (log + references + ancestry oracle; push decided per "
                "reference, fast-forward only). Proved for ALL pairs of logs with a non-empty common prefix (unbounded lengths, any entry kinds, annotations naming anything "
                "recorded earlier): reconcile_spec (repaired variant: success, new log = remote log ++ rename rho localOnly with rho the i-th local-only entry -> i-th fresh id, "
                "every id once, Skipped new (rho e) <-> Skipped old e), reconcile_conflict (a reference changed on both sides through reference or propagation entries => error and "
                "log unchanged), reconcile_conflict_current_partial (what the present code still refuses), reconcile_error_unchanged (every variant, every input), "
                "reconcile_keeps_order, reconcile_exactly_once; refTips_honours_skips / refTips_sound (a reported tip is the target of the latest reference entry no later "
                "annotation skips); sync_moves (a local reference is left alone or set to the reported tip, which exists locally and, without overwrite, descends from the old "
                "state), sync_diverged_refused, sync_log_keep, sync_publishes_only_when_ahead. Witness theorems by evaluation for the code as it stands: F12_witness "
                "(revoked local entry comes back unrevoked), F12b_witness (propagation conflict not refused, entry dropped), F60/F61/F62_witness. Every case runs the real "
                "ReconcileLocalRSLWithRemote / Sync on two real repositories; model (current variant) and observation must coincide down to the new commit ids; the declarative "
                "spec is evaluated on the observation.",
        "note": TB + "sync_moves is proved relative to the tips getLatestRefTipsFromRSLEntries reports (reference entries only); the property's own wording, with propagation "
                "entries counted as log entries (sync_moves_statement), is refuted for the code as it stands (sync_moves_statement_false = F62) and is evaluated on every real run. "
                "The push-set statement (sync_publishes) is evaluated on every real run; on the model only sync_publishes_only_when_ahead and the F60/F61 witnesses are proved. "
                "Open findings on this tree: F12 (annotations replayed with old ids: revocations lost), F12b (local propagation entries dropped and ignored by the conflict check), "
                "F60 (references named only by propagation entries are not pushed with the log), F61 (push is not atomic: log published although a named reference is rejected), "
                "F62 (sync moves a local reference to the latest reference entry's target although a later propagation entry records another state).",
        "technique": "Lean 4 proof (induction over the replay loop with the partial renaming as invariant) + differential correspondence on pairs of real repositories",
    },
    "C12": {
        "text": "Model/PolicyOps.lean follows State.Commit, Apply, Discard, ReconcileStaging (all four reference/log consistency cases, fast-forward and rebase of staging) "
                "and the experimental/gittuf root and rule-file mutators over an abstract repository (policy-commit graph, two references, log). Proved in Lean for EVERY "
                "repository state, hence after every operation sequence (C12_all_sequences), and for both variants of Apply: C12_apply_refuses (a reference that disagrees with its "
                "latest log entry => ErrInvalidPolicy and the state is untouched), C12_apply_ok (a successful Apply sets the policy reference to the staging tip left by "
                "reconciliation, which descends from the old policy tip, is the old staging tip whenever staging was a fast-forward, carries metadata that passed State.Verify, and the log "
                "gains exactly one policy entry, naming it), C12_refused_apply_policy_untouched, C12_discard_restores, "
                "C12_root_edit_refused / C12_root_edit_unauthorized (all eight root-of-trust mutators refuse signers outside the root principals of the state being edited, leaving it "
                "untouched), C12_published_chain_partial (the repaired Apply only publishes states that the fully verified applied state accepts by VerifyNewState: C02's root-signature "
                "and version conditions); C12_F9_witness / C12_F9_statement_false (kernel-evaluated: on the code as it stands a two-step root rotation applied at once is published and "
                "LoadState then fails), C12_F9_repaired. The model is compared with the real code after every operation of random and scripted sequences on both layers (references, whole "
                "log by an independent reader, every new policy commit's parent and decoded metadata, error class, LoadCurrentState and VerifyRefFull around every Apply) and the "
                "declarative statements are evaluated on the observed states.",
        "note": TB + "Only stated, not proved: C12_published_verifies_statement (LoadState of the new entry succeeds after the repaired Apply; needs the append lemma for the "
                "LoadState chain); PublishedVerifies is evaluated by the driver on every successful Apply of the real code. Open finding F9 (Apply never calls VerifyNewState) is reproduced from corpus/C12 on every run. Incidental: AddDelegation panics (nil set in "
                "State.HasRuleName) on a state without primary rule file; modelled, outside the property.",
        "technique": "Lean 4 proof (case analysis of ReconcileStaging/Apply, invariants for arbitrary states) + differential correspondence on operation sequences over both API layers",
    },
}

NOT_YET = {}
