"""Human-written level texts for MANIFEST.json."""

TB = ("Trusted: Lean 4.33.0 kernel (axioms at most propext, Classical.choice, Quot.sound; no sorry/native_decide); "
      "symbolic cryptography; the hand-written model is tied to the code only by the correspondence run "
      "(Go harness + line protocol + Lean driver), whose coverage is measured in the evidence file. ")

TEXT = {
    "C01": {
        "text": "Lean model of VerifyRefFull / VerifyRef / VerifyRefFromEntry (LoadState chain, range walk with policy/attestation "
                "switching, verifyEntry with authorizations, code-review approvals, file rules, global rules, recovery loop) over an "
                "abstract history; proved so far: the reported tip is the target of the latest entry, a reference without entries "
                "never verifies (all histories, all variants). The soundness statement C01_sound_statement is kept at full strength "
                "and is evaluated by the driver, as a decidable predicate written independently of the algorithm, on the verdict the "
                "REAL verifier returns for every generated history; the model (with the open defects F1-F4 as explicit Variant flags) "
                "must reproduce every verdict and tip of the real code.",
        "note": TB + "The unbounded soundness theorem for the whole loop is not yet proved (statement in Props/C01.lean); known defects "
                "F1, F2, F3 (and F4 via C02) are open findings reproduced on every run from corpus/C01.",
        "technique": "Lean 4 model + partial theorems; differential correspondence with spec evaluated on the implementation",
    },
    "C05": {
        "text": "C05_sound / C05_invalid / C05_accept_satisfies are proved in Lean for every rule shape, every principal and key "
                "iteration order, every Git signature and every envelope (no bound on principals, keys or signatures): a successful "
                "SignatureVerifier.Verify returns >= threshold distinct principals of the rule, injectively credited through their own "
                "keys with valid signatures over exactly this object/envelope, at most one through the Git signature; threshold<1 or "
                "no principals is never satisfied. The model is compared with the real Verify (verifiers from FindVerifiersForPath, real "
                "ed25519 signatures) under every map iteration order; the spec is also evaluated on the implementation's own output, "
                "including completeness for key-disjoint principals.",
        "note": TB + "Completeness for key-disjoint principals (C05_exact) is so far checked on the implementation's output by the driver, not yet a theorem. Only SSH keys are generated.",
        "technique": "Lean 4 proof (invariant over the principal loop) + differential correspondence",
    },
}

NOT_YET = {}
