#!/bin/sh
# Builds the framework offline from files on disk: Lean project + driver, Go harness (warms the Go build cache).
set -e
cd "$(dirname "$0")"
export GOFLAGS=-mod=mod GOPROXY=off GOSUMDB=off GOTOOLCHAIN=local
(cd lean && lake build Gittuf driver)
cp /repo/go.sum harness/go.sum
mkdir -p bin
GO=$(command -v go1.26 || command -v go)
(cd harness && $GO test -c -tags verif -o ../bin/harness.test .)
echo setup-ok
