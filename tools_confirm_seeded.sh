#!/bin/sh
# Confirms a seeded change in a scratch worktree of /repo's pinned commit:
#   builds with the patch, runs the demonstration (must FAIL with the patch, PASS without it)
#   and the existing tests of the touched package (must PASS with the patch).
# usage: tools_confirm_seeded.sh seeded/<id> [base-commit]
set -u
d=$(cd "$1" && pwd); base=${2:-6edbb89}
export GOFLAGS=-mod=mod GOPROXY=off GOSUMDB=off GOTOOLCHAIN=local
pkg=$(python3 -c "import json;print(json.load(open('$d/meta.json'))['demo_pkg'])")
wt=$(mktemp -d /tmp/confirm-XXXXXX); rmdir "$wt"
git -C /repo worktree add -q "$wt" "$base" || exit 2
cd "$wt" && git apply "$d/patch.diff" || { echo "patch does not apply"; exit 2; }
cp "$d/zz_mut_demo_test.go.txt" "$wt/$pkg/zz_mut_demo_test.go"
echo "== build"; go1.26 build ./... && echo build-ok
echo "== demo WITH patch (expect FAIL)"; go1.26 test -vet=off -count=1 -timeout 120m -run ZZMut "./$pkg/" 2>&1 | tail -3
echo "== existing tests of $pkg WITH patch (expect ok)"; go1.26 test -vet=off -count=1 -timeout 180m -skip ZZMut "./$pkg/" 2>&1 | tail -3
git apply -R "$d/patch.diff"
echo "== demo WITHOUT patch (expect ok)"; go1.26 test -vet=off -count=1 -timeout 120m -run ZZMut "./$pkg/" 2>&1 | tail -3
cd /; git -C /repo worktree remove --force "$wt"
