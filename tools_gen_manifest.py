#!/usr/bin/env python3
"""Regenerates MANIFEST.json from checklib/props.py (claimed checks) and properties.jsonl."""
import json, os, sys
VERIF = os.path.dirname(os.path.abspath(__file__))
sys.path.insert(0, VERIF)
from checklib.props import PROPS
from checklib.manifest_text import TEXT, NOT_YET

props = [json.loads(l) for l in open(os.path.join(VERIF, "properties.jsonl"))]
checks, na = [], []
for p in props:
    pid = p["id"]
    if pid in PROPS and pid in TEXT:
        t = TEXT[pid]
        checks.append({
            "property_id": pid,
            "quick_cmd": f"./check {pid} --tier quick",
            "thorough_cmd": f"./check {pid} --tier thorough",
            "evidence_file": f"/verif/evidence/{pid}.json",
            "replay_cmd_template": f"./check {pid} --replay {{path}}",
            "engine": "lean4-model+correspondence",
            "level_claimed": {"category": "proof", "text": t["text"], "design_ref": t.get("design_ref", f"DESIGN.md §5 {pid}")},
            "level_note": t["note"],
            "technique": t["technique"],
        })
    else:
        na.append({"property_id": pid, "reason": NOT_YET.get(pid, "check not built yet in this round; no claim is made")})
m = {
    "version": 1,
    "setup_cmd": "./setup.sh",
    "hooks": {
        "guard": "verif",
        "enable": "go test -c -tags verif (harness module github.com/gittuf/gittuf/verifharness, replace => /repo)",
        "baseline_off_cmd": "cd /repo && go test -json -vet=off -count=1 -timeout 25m ./...",
        "source_commits": json.load(open(os.path.join(VERIF, "MANIFEST.hooks")))["source_commits"] if os.path.exists(os.path.join(VERIF, "MANIFEST.hooks")) else [],
        "add_only": True,
    },
    "engines": [{
        "name": "lean4-model+correspondence",
        "path": "/verif/lean, /verif/harness, /verif/check",
        "serves_properties": [c["property_id"] for c in checks],
        "kind_free_text": "Lean 4 theorems over a hand-written executable model (lean/Gittuf), tied to /repo on every run by a differential correspondence check: Go harness (real code, in-process) -> JSON lines -> core-only Lean driver (model + decidable spec).",
    }],
    "checks": checks,
    "not_applicable": na,
    "notes": "See DESIGN.md. Every claimed check is 'theorem about the model AND model = code on the explored cases'; evidence files list theorems, axioms and measured correspondence coverage.",
}
json.dump(m, open(os.path.join(VERIF, "MANIFEST.json"), "w"), indent=1)
print("checks:", [c["property_id"] for c in checks], "not_applicable:", len(na))
